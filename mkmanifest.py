#!/usr/bin/env python3
"""Regenerates MANIFEST.json. Edit the tables here, not the JSON."""
import json, subprocess

CLAIMS = {
 "C02": dict(
  level="exploration", ref="DESIGN.md §3.1",
  text="Seeded deterministic simulation of the conversation with the second party: the real engine and dockerlog.Querier run against a simulated daemon whose concurrent ContainerLogs calls are released in a seeded order; the recorded transport history (which containers were asked, with which since/until/options) and the labels of every returned line are judged against a small reference selection model. Sampling over inventories, selectors and ranges: evidence, not proof. A returned line must carry every label of its container and no non-empty label that container does not have (labels left over from a container read by an earlier evaluation are a violation; replay files of such findings carry the worker's history).",
  note="Trusted: the reference selection model (sim/verifsim/refsel.go: exact (in)equality, Go regexp anchored as ^(?:re)$, missing label = empty string), the reference label derivation incl. key sanitising (world.go), and the reading of the daemon's since/until. Container inventories carry at most one name; Docker label keys never collide after sanitising. Regexes follow the property's anchor (^(?:re)$, Go syntax, no dot-all). An empty-valued label on a line counts as present or absent alike.",
  technique="deterministic simulation: simulated Docker daemon + seeded release scheduler; transport-history oracle against a reference selection model"),
 "C03": dict(
  level="fault_enumeration", ref="DESIGN.md §3.2",
  text="Seeded deterministic simulation of the decoder's only counterpart, the reader: every sampled stream is decoded through dockerlog.ParseLog and through Engine.Eval under seeded fragmentation, fault-free and with a single fault; for streams under 600 bytes the fault is enumerated over every byte offset (cut, read error) and every frame index (daemon-error frame, bad timestamp, missing separator, empty payload). The oracle is the world itself (the decoded form) plus the prefix rule of the statement. Enumeration is per sampled stream, sampling across streams: evidence, not proof.",
  note="Trusted: the stdcopy encoder and the stop/position classifier of the simulated stream (sim/verifsim/world.go, daemon.go); Go's time formatting for timestamps. Re-polling Next after it returned false is part of the workload because the engine's range aggregation does it.",
  technique="deterministic simulation: seeded simulated reader (fragmentation, truncation, read errors, corrupt frames) with single-fault enumeration per stream; prefix oracle"),
 "C04": dict(
  level="exploration", ref="DESIGN.md §3.3",
  text="The completion order of the concurrent per-container log requests is owned by the simulator (one parked call released per quiescence point inside a testing/synctest bubble); each sampled world is merged under K release orders - all n! for small n - with independent read fragmentation, and the merged sequence is checked for conservation, per-source order, time order and equality across release orders. Sampling over worlds: evidence, not proof.",
  note="Trusted: the scheduler's claim that application goroutines run one at a time between quiescence points (synctest.Wait), the world encoder. The expected record set per container is what the simulated daemon delivered for the options it was actually asked with (window correctness is C02's); records it delivered outside the query's exact [start, end] may be passed on or filtered.",
  technique="deterministic simulation: seeded/enumerated release orders of parked ContainerLogs calls; conservation, order and cross-schedule equality oracles"),
 "C10": dict(
  level="exploration", ref="DESIGN.md §3.4",
  text="Hash-map iteration order while a sample's label set is materialised is put behind a seam (build tag verif) and driven by the PRNG, one permutation per LabelSet.Range call; every plan runs under the sorted order and three seeded orders. Results are compared with the partition of the same samples obtained through the log path and projected textbook-style, per step. Sampling over worlds and queries: evidence, not proof. A quarter of the plans run some variants on a used Engine: the same Engine object has evaluated the query, or a differently grouped sibling over the same selection, once or twice before (Variant.Warmup).",
  note="Trusted: the engine's log path as the reference for which labels a sample carries (its stream key is a sorted, quoted rendering), textbook by/without projection, sample timestamps strictly off window edges (so C09's edge semantics never matter), integer-valued samples. Two readings of an empty-valued label are accepted if applied consistently (a label of its own; no label at all). by-over-by nesting is not generated (its semantics is C11's).",
  technique="deterministic simulation: PRNG-driven map-iteration order at a guarded seam; partition oracle from the log path; histories of several evaluations on one long-lived Engine"),
 "C14": dict(
  level="fault_enumeration", ref="DESIGN.md §3.5",
  text="Query shape x fault x position x completion order, all owned by the simulator. About a fifth of the plans enumerate every single fault over everything the fault-free twin touched (each byte offset of each stream for cut and read error, each frame x corruption kind, each open call x release order, each list call, cancellation at each transport event); the others carry one or two seeded faults in larger worlds. Oracle: evaluation may succeed although a failure was delivered to it only if its answer is exactly the fault-free twin's (anything else is a silently truncated result; never a panic or hang), an error needs a delivered failure or an invalid query, and every reader handed out - also to requests answered after evaluation returned - must have been closed; where reads are under the scheduler Close calls are too, and a reader still open at the instant the evaluation call returns (closed later by a goroutine nobody waits for) is a violation. Enumeration per sampled world, sampling across worlds and templates: evidence, not proof. Clause (v), bounded liveness after faults stop: for a quarter of the engine-level cases the faulted evaluation is followed, on the same Engine and after every fault has been switched off, by one or two further evaluations, which must succeed with the complete fault-free answer and leave no reader open.",
  note="Trusted: what the simulated stream delivered (a decoder may read ahead: a delivered failure that cannot have mattered may go unreported), the classification of a cut at a frame boundary or inside a header as a clean end (C03), sticky EOF/errors as net/http bodies behave.",
  technique="deterministic simulation with fault injection: single-fault enumeration and seeded multi-fault runs over release orders; fault-free-twin oracle and close accounting; after-faults-stop re-evaluation on the same Engine"),
 "C16": dict(
  level="exploration", ref="DESIGN.md §3.6",
  text="The real cobra command runs at a simulated wall-clock instant (synctest fake clock) against the simulated daemon; the since/until of the ContainerLogs call - the only place the resolved range leaves the process - is compared with integer-nanosecond arithmetic over the generated flags, malformed values or a non-positive step must be rejected, and an accepted explicit step must not be zero (a zero step turns a start == end query into an instant query whose look-back shows in since). Only the facets that reach a seam are decided: the value of the default step or of a non-zero accepted step, and sub-second agreement of spellings, are not observable there and are not claimed.",
  note="Trusted: Go's time formatting for the generated spellings; Prometheus duration syntax as generated (w,d,h,m,s,ms in descending order). Not decided: value of the default step max(1s, floor((end-start)/250) s), value of a non-zero accepted explicit step, sub-second equality of spellings.",
  technique="deterministic simulation: real CLI under a simulated clock against a simulated daemon; arithmetic oracle on the recorded transport options"),
 "C18": dict(
  level="exploration", ref="DESIGN.md §3.7",
  text="The same plan is re-executed >= 4 times varying only what the simulator owns: release order of the concurrent requests (all n! for small n), read fragmentation, map and stream order at the seams; canonical results, error outcome and - through the real command - stdout bytes must agree. In a share of the executions every Read and Close parks as well and the PRNG picks among all parked operations. A sample of plans (and every plan run under cache pressure - thousands of throw-away queries with distinct literals, regexes and templates before or between the evaluations) is also answered by a fresh process, and the answers must agree (history independence). A second phase runs the generator under the race detector with whole batches of parked calls released at once. Sampling: evidence, not proof; the race verdict is the Go detector's. In 30% of the engine-level plans some repetitions run on a used Engine (it evaluated this query or a sibling before, inside the same bubble) and must agree with the fresh-engine reference.",
  note="Trusted: canonicalisation (streams/series sorted by label rendering, entries of a stream as a multiset), exclusion of constructs whose answer LogQL leaves open (topk/bottomk ties, sort) and of inexact float sums. Race replay re-runs the race binary; Go gives no formal guarantee that a race is reported on every run.",
  technique="deterministic simulation: self-agreement across seeded schedules (opens, reads, closes), fragmentations and map orders, and with a fresh process after cache pressure; race-detector phase with parallel release; repetitions on a long-lived Engine"),
}

NA = {
 "C01": "pure function of (records, query, capability set); no schedule, clock, fault or second party for a simulator to own (DESIGN.md §4)",
 "C05": "pure function of the query string (lexer + parser)",
 "C06": "pure function of (line, stage parameters)",
 "C07": "pure function of (labels, line, stage parameters); __timestamp__ is the record's time, not the clock",
 "C08": "pure function of (entry sequence, limit); its schedule-facing consequence is exercised under C04/C18",
 "C09": "pure function of (samples, range, offset, grid); successive window positions are deterministic, nothing to schedule",
 "C11": "pure function of (input vector, operator, grouping)",
 "C12": "pure function of (two vectors or vector and scalar, operator)",
 "C13": "pure function of the expression text",
 "C15": "pure function of (result, three booleans); stdout write errors are not in the statement",
 "C17": "quantifies over byte strings (queries x contents) - a fuzzing target; panics and hangs under faults are reported under C14",
 "C19": "algebraic relations between pure evaluations",
 "C20": "pure function of a string; its consequence for selection is exercised by C02's generator only",
}
PENDING = {}

def main():
    checks = []
    for pid in sorted(CLAIMS):
        c = CLAIMS[pid]
        checks.append({
            "property_id": pid,
            "quick_cmd": "./check %s quick" % pid,
            "thorough_cmd": "./check %s thorough" % pid,
            "evidence_file": "/verif/evidence/%s.json" % pid,
            "replay_cmd_template": "./check %s --replay {path}" % pid,
            "engine": "verifsim",
            "level_claimed": {"category": c["level"], "text": c["text"], "design_ref": c["ref"]},
            "level_note": c["note"],
            "technique": c["technique"],
        })
    na = [{"property_id": k, "reason": v} for k, v in sorted({**NA, **PENDING}.items()) if k not in CLAIMS]
    hooks = subprocess.run(["git", "-C", "/repo", "log", "--format=%H", "--grep=^verif:"], capture_output=True, text=True).stdout.split()
    m = {
        "version": 1,
        "setup_cmd": "./check build",
        "hooks": {
            "guard": "verif",
            "enable": "go1.26.8 test -c -tags verif -overlay /verif/.build/overlay.json ./cmd/docker-logql/ (done by ./check on every invocation, from /repo's current working tree)",
            "baseline_off_cmd": "cd /repo && GOFLAGS=-mod=mod GOPROXY=off GOSUMDB=off go test -json -vet=off -count=1 -timeout 25m ./...",
            "source_commits": hooks,
            "add_only": True,
        },
        "engines": [{
            "name": "verifsim", "path": "/verif/sim/verifsim",
            "serves_properties": sorted(CLAIMS),
            "kind_free_text": "deterministic simulator: seeded scheduler over testing/synctest bubbles, simulated Docker daemon/transport/streams with fault injection, plan shrinking and replay; compiled into /repo's module through a build overlay",
        }],
        "checks": checks,
        "not_applicable": na,
        "notes": "Technique family: deterministic simulation with fault injection. See DESIGN.md. Exit codes: 0 held, 1 VIOLATION, 2 build/harness trouble.",
    }
    json.dump(m, open("/verif/MANIFEST.json", "w"), indent=1)
    print("MANIFEST.json written: %d checks, %d not applicable" % (len(checks), len(na)))

if __name__ == "__main__":
    main()
