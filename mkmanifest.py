#!/usr/bin/env python3
"""Regenerates MANIFEST.json. Edit the tables here, not the JSON."""
import json, subprocess

CLAIMS = {
 "C03": dict(
  level="fault_enumeration", ref="DESIGN.md §3.2",
  text="Seeded deterministic simulation of the decoder's only counterpart, the reader: every sampled stream is decoded through dockerlog.ParseLog and through Engine.Eval under seeded fragmentation, fault-free and with a single fault; for streams under 600 bytes the fault is enumerated over every byte offset (cut, read error) and every frame index (daemon-error frame, bad timestamp, missing separator, empty payload). The oracle is the world itself (the decoded form) plus the prefix rule of the statement. Enumeration is per sampled stream, sampling across streams: evidence, not proof.",
  note="Trusted: the stdcopy encoder and the stop/position classifier of the simulated stream (sim/verifsim/world.go, daemon.go); Go's time formatting for timestamps. Re-polling Next after it returned false is part of the workload because the engine's range aggregation does it.",
  technique="deterministic simulation: seeded simulated reader (fragmentation, truncation, read errors, corrupt frames) with single-fault enumeration per stream; prefix oracle"),
}

NA = {
 "C01": "pure function of (records, query, capability set); no schedule, clock, fault or second party for a simulator to own (DESIGN.md §4)",
 "C05": "pure function of the query string (lexer + parser)",
 "C06": "pure function of (line, stage parameters)",
 "C07": "pure function of (labels, line, stage parameters); __timestamp__ is the record's time, not the clock",
 "C08": "pure function of (entry sequence, limit); its schedule-facing consequence is exercised under C04/C18",
 "C09": "pure function of (samples, range, offset, grid); successive window positions are deterministic, nothing to schedule",
 "C11": "pure function of (input vector, operator, grouping)",
 "C12": "pure function of (two vectors or vector and scalar, operator)",
 "C13": "pure function of the expression text",
 "C15": "pure function of (result, three booleans); stdout write errors are not in the statement",
 "C17": "quantifies over byte strings (queries x contents) - a fuzzing target; panics and hangs under faults are reported under C14",
 "C19": "algebraic relations between pure evaluations",
 "C20": "pure function of a string; its consequence for selection is exercised by C02's generator only",
}
PENDING = {k: "check under construction in this session (DESIGN.md §3); will be claimed once it runs" for k in ("C02","C04","C10","C14","C16","C18")}

def main():
    checks = []
    for pid in sorted(CLAIMS):
        c = CLAIMS[pid]
        checks.append({
            "property_id": pid,
            "quick_cmd": "./check %s quick" % pid,
            "thorough_cmd": "./check %s thorough" % pid,
            "evidence_file": "/verif/evidence/%s.json" % pid,
            "replay_cmd_template": "./check %s --replay {path}" % pid,
            "engine": "verifsim",
            "level_claimed": {"category": c["level"], "text": c["text"], "design_ref": c["ref"]},
            "level_note": c["note"],
            "technique": c["technique"],
        })
    na = [{"property_id": k, "reason": v} for k, v in sorted({**NA, **PENDING}.items()) if k not in CLAIMS]
    hooks = subprocess.run(["git", "-C", "/repo", "log", "--format=%H", "--grep=^verif:"], capture_output=True, text=True).stdout.split()
    m = {
        "version": 1,
        "setup_cmd": "./check build",
        "hooks": {
            "guard": "verif",
            "enable": "go1.26.8 test -c -tags verif -overlay /verif/.build/overlay.json ./cmd/docker-logql/ (done by ./check on every invocation, from /repo's current working tree)",
            "baseline_off_cmd": "cd /repo && GOFLAGS=-mod=mod GOPROXY=off GOSUMDB=off go test -json -vet=off -count=1 -timeout 25m ./...",
            "source_commits": hooks,
            "add_only": True,
        },
        "engines": [{
            "name": "verifsim", "path": "/verif/sim/verifsim",
            "serves_properties": sorted(CLAIMS),
            "kind_free_text": "deterministic simulator: seeded scheduler over testing/synctest bubbles, simulated Docker daemon/transport/streams with fault injection, plan shrinking and replay; compiled into /repo's module through a build overlay",
        }],
        "checks": checks,
        "not_applicable": na,
        "notes": "Technique family: deterministic simulation with fault injection. See DESIGN.md. Exit codes: 0 held, 1 VIOLATION, 2 build/harness trouble.",
    }
    json.dump(m, open("/verif/MANIFEST.json", "w"), indent=1)
    print("MANIFEST.json written: %d checks, %d not applicable" % (len(checks), len(na)))

if __name__ == "__main__":
    main()
