package verifsim

import (
	"fmt"
	"regexp"
	"sort"
	"strings"
	"testing"
)

// C02 — selectors pick exactly the matching containers; lines keep their origin.
type propC02 struct{}

func init() { register(propC02{}) }

func (propC02) ID() string { return "C02" }

var builtinLabels = []string{"container", "container_id", "container_name", "container_image", "container_image_id",
	"container_command", "container_created", "container_state", "container_status"}

func durText(ns int64) string {
	s := ns / sec
	if s%60 == 0 {
		return fmt.Sprintf("%dm", s/60)
	}
	return fmt.Sprintf("%ds", s)
}

// genMatcher draws one matcher over the labels of the world.
func genMatcher(r *Rng, w *World) Matcher {
	var labels []string
	labels = append(labels, builtinLabels...)
	labels = append(labels, "container", "container", "container_name", "container_state", "container_image")
	docker := map[string]bool{}
	for i := range w.Containers {
		for k := range w.Containers[i].Labels {
			docker[SanitizeLabel(k)] = true
		}
	}
	dl := sortedKeys(docker)
	for i := 0; i < 3; i++ {
		labels = append(labels, dl...)
	}
	labels = append(labels, "nosuch", "nosuch", "tier")
	m := Matcher{Label: Pick(r, labels), Op: Pick(r, []string{"=", "!=", "=~", "!~"})}
	// Values the label takes in this world.
	var vals []string
	for i := range w.Containers {
		if v, ok := w.Containers[i].RefLabels()[m.Label]; ok {
			vals = append(vals, v)
		}
	}
	sort.Strings(vals)
	present := ""
	if len(vals) > 0 {
		present = Pick(r, vals)
	}
	part := func(str string) string {
		s := []rune(str)
		if len(s) < 2 {
			return str
		}
		switch r.Intn(3) {
		case 0:
			return string(s[:1+r.Intn(len(s)-1)]) // proper prefix
		case 1:
			return string(s[1+r.Intn(len(s)-1):]) // proper suffix
		}
		a := r.Intn(len(s) - 1)
		return string(s[a : a+1+r.Intn(len(s)-a-1)])
	}
	isRe := m.Op == "=~" || m.Op == "!~"
	m.Raw = r.Bool(0.15)
	if !isRe {
		switch x := r.Intn(100); {
		case x < 55:
			m.Value = present
		case x < 75:
			m.Value = part(present)
		case x < 90:
			m.Value = ""
		default:
			m.Value = present + "x"
		}
		return m
	}
	q := regexp.QuoteMeta
	switch x := r.Intn(100); {
	case x < 20:
		m.Value = q(present)
	case x < 32:
		m.Value = q(part(present)) // matches only a substring: must not select
	case x < 44:
		if pr := []rune(present); len(pr) > 0 {
			m.Value = q(string(pr[:1+r.Intn(len(pr))])) + ".*"
		} else {
			m.Value = ".*"
		}
	case x < 52:
		m.Value = ".+"
	case x < 60:
		m.Value = ".*"
	case x < 67:
		other := present
		if len(vals) > 0 {
			other = Pick(r, vals)
		}
		m.Value = "(" + q(present) + "|" + q(other) + ")"
	case x < 72:
		// anchors written by the user around an ungrouped alternation bind to the
		// outer branches only: the whole pattern must still match the whole value
		other := present
		if len(vals) > 0 {
			other = Pick(r, vals)
		}
		m.Value = "^" + q(present) + "|" + q(other) + "$"
	case x < 74:
		// an alternation with an empty branch also matches a missing or empty label
		if r.Bool(0.5) {
			m.Value = q(present) + "|"
		} else {
			m.Value = "|" + q(present)
		}
	case x < 76:
		m.Value = "(?i)" + q(strings.ToUpper(present))
	case x < 80:
		m.Value = "[a-m].*"
	case x < 86:
		m.Value = ""
	case x < 92:
		m.Value = q(present) + "|nomatch"
	default:
		if pr := []rune(present); len(pr) > 1 {
			m.Value = ".*" + q(string(pr[1:]))
		} else {
			m.Value = "x?"
		}
	}
	return m
}

func (propC02) Gen(r *Rng, run uint64, tier string) *Plan {
	p := &Plan{Harness: "engine", Tags: map[string]string{}, Config: "faultfree"}
	spec := WorldSpec{NMin: 0, NMax: 9, RecMin: 0, RecMax: 8, Lo: BaseNs, Hi: BaseNs + 60*sec, Grid: sec, TieProb: 0.2,
		Msg: "token", States: true, Labels: "vocab", NoHuge: true, OffSecond: true}
	if r.Bool(0.08) {
		spec.NMin, spec.NMax, spec.RecMax = 10, 24, 3
		if r.Bool(0.25) {
			spec.NMin, spec.NMax, spec.RecMax = 30, 70, 2
		}
	}
	if r.Bool(0.5) {
		spec.NMin = 3
	}
	p.World = GenWorld(r.Sub("world"), spec)
	var ms []Matcher
	for k := []int{0, 1, 1, 1, 2, 2, 3}[r.Intn(7)]; k > 0; k-- {
		ms = append(ms, genMatcher(r.Sub(fmt.Sprint("m", k)), &p.World))
	}
	if ar := r.Sub("ambiguous-matchers"); ar.Bool(0.04) {
		// Two matchers on one label whose label+operator+value texts concatenate to the
		// same string: x=~"v" and x="~v" (no container satisfies the second unless a value
		// starts with a tilde).
		for try := 0; try < 12; try++ {
			m := genMatcher(ar.SubN("try", uint64(try)), &p.World)
			if m.Op != "=~" && m.Op != "!~" {
				continue // only a value that was generated as a pattern is one
			}
			m.Op = "=~"
			ms = append(ms, m, Matcher{Label: m.Label, Op: "=", Value: "~" + m.Value})
			if ar.Bool(0.5) {
				ms[len(ms)-1], ms[len(ms)-2] = ms[len(ms)-2], ms[len(ms)-1]
			}
			break
		}
	}
	sel := SelectorString(ms)
	p.Tags["matchers"] = mustJSON(ms)

	// Query window: arbitrary nanoseconds around the log.
	start := BaseNs - 20*sec + r.Int63n(50*sec)
	end := start + 1 + r.Int63n(90*sec)
	// Boundary classes of the nanosecond part: just below the next second,
	// exactly on a second, one nanosecond past.
	edge := func(ns int64) int64 {
		switch x := r.Intn(100); {
		case x < 8:
			return ns - ns%sec + sec - 1 - r.Int63n(120)
		case x < 12:
			return ns - ns%sec
		case x < 15:
			return ns - ns%sec + 1
		}
		return ns
	}
	start, end = edge(start), edge(end)
	if end <= start {
		end = start + 1 + r.Int63n(90*sec)
	}
	rng := []int64{5 * sec, 30 * sec, 60 * sec, 120 * sec}[r.Intn(4)]
	if r.Bool(0.03) {
		// a range of sixty-odd years: the window begins before 1970
		rng = int64(60*365*24*3600+r.Intn(100000)) * sec
		p.Tags["window_before_epoch"] = "1"
	}
	off := []int64{0, 0, 10 * sec, 60 * sec}[r.Intn(4)]
	if r.Bool(0.02) {
		// an offset of sixty-odd years: the whole window lies before 1970
		off = int64(60*365*24*3600+r.Intn(100000)) * sec
		p.Tags["window_before_epoch"] = "2"
	}
	kind := []string{"log_range", "log_range", "log_instant", "metric_range", "metric_instant", "metric_binop"}[r.Intn(6)]
	var msB []Matcher
	if kind == "metric_binop" {
		for k := []int{0, 1, 1, 2}[r.Intn(4)]; k > 0; k-- {
			msB = append(msB, genMatcher(r.Sub(fmt.Sprint("mb", k)), &p.World))
		}
		p.Tags["matchers_b"] = mustJSON(msB)
	}
	p.Tags["kind"] = kind
	p.Params = Params{Start: start, End: end, StepNs: int64(1+r.Intn(20)) * sec, Limit: -1}
	if r.Bool(0.5) {
		p.Params.LookbackNs = -int64(1+r.Intn(40)) * sec
	}
	_ = sel
	suffix := Pick(r.Sub("suffix"), c02Suffixes)
	p.Tags["suffix"] = suffix
	p.Query = c02Query(ms, kind, rng, off, suffix)
	if kind == "metric_binop" && r.Bool(0.3) {
		// the first operand filters lines with the very pattern text the second operand's selector uses
		for _, m := range msB {
			if m.Op == "=~" || m.Op == "!~" {
				suffix = " |~ " + quoteLogQL(m.Value)
				p.Tags["suffix"] = suffix
				break
			}
		}
	}
	offB := off
	if kind == "metric_binop" {
		// the two operands carry different offsets: each selection has its own window
		offB = []int64{0, 0, 10 * sec, 60 * sec, 300 * sec}[r.Intn(5)]
		p.Query = c02Query(ms, "metric_range", rng, off, suffix) + " + " + c02Query(msB, "metric_range", rng, offB, "")
	}
	p.Tags["offset_b"] = fmt.Sprint(offB)
	if kind == "metric_binop" && len(p.World.Containers) > 0 && r.Bool(0.3) {
		// Between the two selections a container is stopped and renamed: the second
		// selection must go by what the daemon reports then.
		c := p.World.Containers[r.Intn(len(p.World.Containers))]
		p.Faults = []Fault{{Kind: FaultInventoryChange, Container: c.ID, Open: -1, K: 1}}
		switch x := r.Intn(100); {
		case x < 35:
			// renamed only: state and status stay what they were
			p.Faults[0].ErrKind = "rename"
		case x < 60:
			// nothing but the image changes: its tag was moved to a newer image
			p.Faults[0].ErrKind = "retag"
		}
		p.Tags["changed"] = c.ID
	}
	switch kind {
	case "log_range":
	case "log_instant":
		p.Params.End, p.Params.StepNs = start, 0
	case "metric_range", "metric_binop":
		// Whole-second grid so that the metric evaluation itself stays off window edges.
		p.Params.Start = start - start%sec
		p.Params.End = p.Params.Start + int64(1+r.Intn(6))*p.Params.StepNs
	case "metric_instant":
		p.Params.Start = start - start%sec
		p.Params.End, p.Params.StepNs = p.Params.Start, 0
	}
	p.Tags["range"] = fmt.Sprint(rng)
	p.Tags["offset"] = fmt.Sprint(off)
	n := len(RefSelect(&p.World, ms))
	sizes := []int{n}
	if kind == "metric_binop" {
		sizes = append(sizes, len(RefSelect(&p.World, msB)))
	}
	p.Variants = []Variant{genVariant(r.Sub("variant"), sizes, -1, true, true)}
	return p
}

// c02Foreign returns a label of got that the origin container does not have: not one of
// its reference labels, not the line (msg), not produced by the plan's pipeline suffix,
// and not empty. Lines carry the labels of the container that produced them - and not
// those of another container, or of one read by an earlier evaluation.
func c02Foreign(got, ref map[string]string, suffix string) (string, bool) {
	if strings.Contains(suffix, "logfmt") {
		return "", false // fields of the line become labels: not modelled here
	}
	for _, k := range sortedKeys(got) {
		if _, ok := ref[k]; ok || k == "msg" || got[k] == "" {
			continue
		}
		if k == "extra" && strings.Contains(suffix, "label_format extra=") {
			continue
		}
		return k, true
	}
	return "", false
}

// c02Suffixes are pipelines that neither drop a line nor touch its text or its
// container labels: the selection, the window and the origin of every line
// must be what they are without them.
var c02Suffixes = []string{"", "", "", ` |= "c"`, ` | logfmt`, ` | drop nosuch`, ` | label_format extra=container`, ` != "never-in-a-line"`}

func c02Query(ms []Matcher, kind string, rng, off int64, suffix string) string {
	sel := SelectorString(ms) + suffix
	if !strings.HasPrefix(kind, "metric_") {
		return sel
	}
	metric := fmt.Sprintf("count_over_time(%s[%s]", sel, durText(rng))
	if off > 0 {
		metric += " offset " + durText(off)
	}
	return metric + ")"
}

func (propC02) Expand(t *testing.T, p *Plan) []*Plan { return []*Plan{p} }

// ShrinkCandidates proposes simpler queries: one matcher fewer.
func (propC02) ShrinkCandidates(p *Plan) []*Plan {
	var ms []Matcher
	mustUnJSON(p.Tags["matchers"], &ms)
	var rng, off int64
	fmt.Sscan(p.Tags["range"], &rng)
	fmt.Sscan(p.Tags["offset"], &off)
	var out []*Plan
	if p.Tags["kind"] == "metric_binop" {
		return nil
	}
	for i := range ms {
		c := p.Clone()
		rest := append(append([]Matcher(nil), ms[:i]...), ms[i+1:]...)
		c.Tags["matchers"] = mustJSON(rest)
		c.Query = c02Query(rest, p.Tags["kind"], rng, off, p.Tags["suffix"])
		out = append(out, c)
	}
	if off != 0 {
		c := p.Clone()
		c.Tags["offset"] = "0"
		c.Query = c02Query(ms, p.Tags["kind"], rng, 0, p.Tags["suffix"])
		out = append(out, c)
	}
	if p.Tags["suffix"] != "" {
		c := p.Clone()
		c.Tags["suffix"] = ""
		c.Query = c02Query(ms, p.Tags["kind"], rng, off, "")
		out = append(out, c)
	}
	return out
}

func floorSec(ns int64) int64 {
	q := ns / sec
	if ns%sec < 0 {
		q--
	}
	return q * sec
}

var tokenRe = regexp.MustCompile(`^c(\d+)r(\d+)`)

func (propC02) Check(t *testing.T, p *Plan, st *Stats) *Violation {
	var ms, msB []Matcher
	mustUnJSON(p.Tags["matchers"], &ms)
	mustUnJSON(p.Tags["matchers_b"], &msB)
	kind := p.Tags["kind"]
	var rng, off, offB int64
	fmt.Sscan(p.Tags["range"], &rng)
	fmt.Sscan(p.Tags["offset"], &off)
	fmt.Sscan(p.Tags["offset_b"], &offB)
	if !parses(p.Query) {
		if st != nil {
			st.Skipped++
		}
		return nil
	}
	o := Exec(t, p, 0, ExecOpts{})
	checkHarnessLimit(o)
	v := c02Judge(p, o, st, ms, msB, kind, rng, off, offB, false)
	if v != nil && p.Tags["changed"] != "" && len(o.Lists) >= 2 {
		// Two selections listed the inventory; if they did so concurrently, which of
		// them saw the inventory after the change is not determined.
		if c02Judge(p, o, nil, ms, msB, kind, rng, off, offB, true) == nil {
			if st != nil {
				st.Probe("accepted_with_swapped_inventory_views")
			}
			return nil
		}
	}
	return v
}

// c02Judge judges one outcome. swap: the first selection saw the changed inventory, the second the original one.
func c02Judge(p *Plan, o *Outcome, st *Stats, ms, msB []Matcher, kind string, rng, off, offB int64, swap bool) *Violation {
	viol := func(clause, exp, obs string) *Violation {
		return &Violation{Property: "C02", Clause: clause, Expected: exp, Observed: obs, Detail: "query " + p.Query + " kind=" + kind}
	}
	worldA := &p.World
	want := RefSelect(worldA, ms)
	nSel := 1
	worldB := &p.World
	if id := p.Tags["changed"]; id != "" && len(p.Faults) > 0 && len(o.Lists) >= 2 {
		// (an implementation that lists once per query legitimately keeps the first view)
		w2 := p.World.Clone()
		if c := w2.Find(id); c != nil {
			if p.Faults[0].ErrKind == "retag" {
				c.Image = c.ImageID
			} else {
				c.Names = []string{"/" + ChangedName(id)}
				if p.Faults[0].ErrKind != "rename" {
					c.State, c.Status = ChangedState, ChangedStatus
				}
			}
		}
		worldB = &w2
		if swap {
			worldA, worldB = worldB, worldA
			want = RefSelect(worldA, ms)
		}
	}
	wantCount := map[string]int{}
	for _, id := range want {
		wantCount[id]++
	}
	if kind == "metric_binop" {
		nSel = 2
		for _, id := range RefSelect(worldB, msB) {
			if wantCount[id] == 0 {
				want = append(want, id)
			}
			wantCount[id]++
		}
	}
	if st != nil {
		st.NoteOutcome(o)
		if len(p.World.Containers) > 0 && len(ms) > 0 {
			ops := ""
			for _, m := range ms {
				ops += m.Op + m.Label + ";"
			}
			st.Signature(fmt.Sprintf("%s|%s|sel=%d/%d", kind, ops, len(want), len(p.World.Containers)))
		}
		st.ProbeIf(p.Tags["suffix"] != "", "selector_followed_by_pipeline")
		st.ProbeIf(p.Tags["changed"] != "" && len(o.Lists) >= 2, "inventory_changed_between_selections")
		st.ProbeIf(len(want) == 0, "selects_none")
		st.ProbeIf(len(want) == len(p.World.Containers) && len(want) > 0, "selects_all")
		st.ProbeIf(len(want) > 0 && len(want) < len(p.World.Containers), "selects_proper_subset")
		for _, m := range ms {
			missing := false
			for i := range p.World.Containers {
				if _, ok := p.World.Containers[i].RefLabels()[m.Label]; !ok {
					missing = true
				}
			}
			st.ProbeIf(missing, "matcher_on_label_some_lack")
			st.Probe("op_" + m.Op)
		}
		for i := range p.World.Containers {
			if p.World.Containers[i].State != "running" {
				st.Probe("non_running_container")
				break
			}
		}
	}
	if o.Panic != "" {
		return viol("C02(panic)", "no panic", clip(o.Panic, 600))
	}
	if o.Hang {
		return viol("C02(hang)", "evaluation returns", "evaluation never returned")
	}
	// (a) one listing per selection, asking for all containers.
	if len(o.Lists) < 1 || len(o.Lists) > nSel {
		return viol("C02(a:list)", fmt.Sprintf("the inventory is listed at least once and at most once per selection (%d)", nSel), fmt.Sprintf("%d calls", len(o.Lists)))
	}
	for _, lc := range o.Lists {
		if !lc.All || lc.Limit != 0 || lc.Filters != 0 {
			return viol("C02(a:list)", "ContainerList over all containers (All=true, no limit, no filter)", fmt.Sprintf("%+v", lc))
		}
	}
	// (b) exactly the reference selection receives a log request, once each.
	got := map[string]int{}
	for _, oc := range o.Opens {
		got[oc.ID]++
	}
	wantSet := map[string]bool{}
	for _, id := range want {
		wantSet[id] = true
		if got[id] != wantCount[id] {
			c := p.World.Find(id)
			return viol("C02(b:selection)", fmt.Sprintf("container %s %s is selected by %d of the selections %s %s (one log request each)", id, RenderLabels(c.RefLabels()), wantCount[id], SelectorString(ms), p.Tags["matchers_b"]),
				fmt.Sprintf("%d log requests for it; requested: %v", got[id], sortedKeys(got)))
		}
	}
	for _, id := range sortedKeys(got) {
		if !wantSet[id] {
			c := p.World.Find(id)
			lbl := "unknown container"
			if c != nil {
				lbl = RenderLabels(c.RefLabels())
			}
			return viol("C02(b:selection)", fmt.Sprintf("container %s %s is not selected by %s", id, lbl, SelectorString(ms)), "it received a log request")
		}
	}
	// (c) the window the daemon is asked for.
	lookback := p.Params.LookbackNs
	if lookback >= 0 {
		lookback = -30 * sec
	}
	var sinceLo, sinceHi, until int64
	switch kind {
	case "log_range":
		sinceLo, sinceHi, until = p.Params.Start, p.Params.Start, p.Params.End
	case "log_instant":
		sinceLo, sinceHi, until = p.Params.Start+lookback, p.Params.Start+lookback, p.Params.End
	case "metric_range", "metric_binop":
		sinceLo, sinceHi, until = p.Params.Start-rng-off, p.Params.Start-rng-off, p.Params.End-off
	case "metric_instant":
		sinceLo, sinceHi, until = p.Params.Start-rng-off+lookback, p.Params.Start-rng-off, p.Params.End-off
	}
	sinceLo, sinceHi, until = floorSec(sinceLo), floorSec(sinceHi), floorSec(until)
	type window struct{ lo, hi, until int64 }
	winA := window{sinceLo, sinceHi, until}
	winB := winA
	if kind == "metric_binop" {
		b := floorSec(p.Params.Start - rng - offB)
		winB = window{b, b, floorSec(p.Params.End - offB)}
	}
	inA, inB := map[string]bool{}, map[string]bool{}
	for _, id := range RefSelect(worldA, ms) {
		inA[id] = true
	}
	if kind == "metric_binop" {
		for _, id := range RefSelect(worldB, msB) {
			inB[id] = true
		}
	}
	// Each selection that selects a container asks for its own window; which of
	// the container's requests belongs to which selection is not prescribed.
	pending := map[string][]window{}
	for id := range inA {
		pending[id] = append(pending[id], winA)
	}
	for id := range inB {
		pending[id] = append(pending[id], winB)
	}
	for _, oc := range o.Opens {
		op := oc.Opts
		if !op.ShowStdout || !op.ShowStderr || !op.Timestamps || op.Follow || op.Details || (op.Tail != "all" && op.Tail != "") {
			return viol("C02(c:options)", "stdout+stderr, timestamps, tail=all, no follow", fmt.Sprintf("%+v", op))
		}
		s, okS, errS := parseDaemonTime(op.Since)
		u, okU, errU := parseDaemonTime(op.Until)
		if errS != nil || errU != nil || !okS || !okU {
			return viol("C02(c:window)", "since and until as timestamps the daemon understands", fmt.Sprintf("since=%q until=%q", op.Since, op.Until))
		}
		ws := pending[oc.ID]
		found := -1
		for i, w := range ws {
			if s >= w.lo && s <= w.hi && u == w.until {
				found = i
				break
			}
		}
		if found < 0 {
			if len(ws) == 0 {
				continue // already reported by (b)
			}
			w := ws[0]
			if s < w.lo || s > w.hi {
				return viol("C02(c:window)", fmt.Sprintf("since = start of the query window truncated to whole seconds = %d..%d (until %d)", w.lo/sec, w.hi/sec, w.until/sec), fmt.Sprintf("since=%q (%d ns), until=%q", op.Since, s, op.Until))
			}
			return viol("C02(c:window)", fmt.Sprintf("until = end of the query window truncated to whole seconds = %d", w.until/sec), fmt.Sprintf("until=%q (%d ns)", op.Until, u))
		}
		pending[oc.ID] = append(ws[:found:found], ws[found+1:]...)
	}
	// (e) evaluation succeeds.
	if o.Failed {
		return viol("C02(e:no-error)", "nil error", clip(o.ErrText, 300))
	}
	// (d) every returned line carries the labels of its origin.
	if strings.HasPrefix(kind, "log_") {
		if o.Result == nil || o.Result.Type != "streams" {
			return viol("C02(d:origin)", "a streams result", o.Result.Summary())
		}
		nonIdentity := false
		for _, bp := range o.BatchPerms {
			if !isIdentity(bp) {
				nonIdentity = true
			}
		}
		checked := 0
		for _, s := range o.Result.Streams {
			for _, e := range s.Entries {
				m := tokenRe.FindStringSubmatch(e.V)
				if m == nil {
					return viol("C02(d:origin)", "only lines of the world", fmt.Sprintf("line %q", clip(e.V, 60)))
				}
				var ci int
				fmt.Sscan(m[1], &ci)
				if ci >= len(p.World.Containers) {
					return viol("C02(d:origin)", "only lines of the world", fmt.Sprintf("line %q", clip(e.V, 60)))
				}
				c := &p.World.Containers[ci]
				ref := c.RefLabels()
				for _, k := range sortedKeys(ref) {
					if s.Labels[k] != ref[k] {
						return viol("C02(d:origin)", fmt.Sprintf("line %q of container %s carries %s=%q", clip(e.V, 40), c.ID, k, ref[k]),
							fmt.Sprintf("%s=%q (stream %s)", k, s.Labels[k], clip(s.Key, 300)))
					}
				}
				if k, bad := c02Foreign(s.Labels, ref, p.Tags["suffix"]); bad {
					return viol("C02(d:origin)", fmt.Sprintf("line %q of container %s carries the labels of that container only", clip(e.V, 40), c.ID),
						fmt.Sprintf("it also carries %s=%q, which the container does not have (stream %s)", k, s.Labels[k], clip(s.Key, 300)))
				}
				checked++
			}
		}
		if st != nil {
			st.ProbeIf(checked > 0, "origin_checked")
			st.ProbeIf(checked > 0 && nonIdentity, "origin_checked_under_nonidentity_release")
		}
	}
	if kind == "metric_range" || kind == "metric_instant" {
		// Ungrouped range aggregation: a series carries the labels of its samples,
		// and the line (label msg) identifies the origin.
		if o.Result == nil {
			return viol("C02(d:origin)", "a metric result", o.Result.Summary())
		}
		checked := 0
		for _, s := range o.Result.Series {
			// (a container whose own Docker label is called msg shows that label, not the line)
			m := tokenRe.FindStringSubmatch(s.Labels["msg"])
			if m == nil {
				continue
			}
			var ci int
			fmt.Sscan(m[1], &ci)
			if ci >= len(p.World.Containers) {
				continue
			}
			c := &p.World.Containers[ci]
			ref := c.RefLabels()
			for _, k := range sortedKeys(ref) {
				if s.Labels[k] != ref[k] {
					return viol("C02(d:origin)", fmt.Sprintf("the series of line %q of container %s carries %s=%q", clip(s.Labels["msg"], 40), c.ID, k, ref[k]),
						fmt.Sprintf("%s=%q (series %s)", k, s.Labels[k], clip(s.Key, 300)))
				}
			}
			if k, bad := c02Foreign(s.Labels, ref, p.Tags["suffix"]); bad && kind != "metric_binop" {
				return viol("C02(d:origin)", fmt.Sprintf("the series of line %q of container %s carries the labels of that container only", clip(s.Labels["msg"], 40), c.ID),
					fmt.Sprintf("it also carries %s=%q, which the container does not have (series %s)", k, s.Labels[k], clip(s.Key, 300)))
			}
			checked++
		}
		if st != nil {
			st.ProbeIf(checked > 0, "origin_checked_on_series")
		}
	}
	return nil
}
