package verifsim

import (
	"encoding/json"
	"fmt"
	"hash/fnv"
	"os"
	"os/exec"
	"path/filepath"
	"runtime/debug"
	"sort"
	"strconv"
	"strings"
	"testing"
	"time"
)

// Stats is what a worker measured. Every number is counted at run time.
type Stats struct {
	Property string `json:"property"`
	Tier     string `json:"tier"`
	Seed     uint64 `json:"seed"`
	Worker   int    `json:"worker"`

	Plans     int64 `json:"plans"`     // generated plans (before expansion)
	Cases     int64 `json:"cases"`     // concrete plans checked
	Execs     int64 `json:"execs"`     // executions of the system under test
	Skipped   int64 `json:"skipped"`   // cases skipped (query rejected by the parser)
	SimNs     int64 `json:"sim_ns"`    // fake-clock time covered
	Transport int64 `json:"transport"` // transport events simulated
	WallNs    int64 `json:"wall_ns"`   // wall time spent
	// the plan (all of its cases) that took longest, and how long
	SlowestPlanMs  int64             `json:"slowest_plan_ms"`
	SlowestPlanRun uint64            `json:"slowest_plan_run"`
	ByConfig       map[string]int64  `json:"by_config"`  // cases per configuration
	Probes         map[string]int64  `json:"probes"`     // reach probes
	Planned        map[string]int64  `json:"planned"`    // faults planned per kind
	Fired          map[string]int64  `json:"fired"`      // faults that actually fired per kind
	Observed       map[string]int64  `json:"observed"`   // faults the code under test was told about
	Signatures     []uint64          `json:"signatures"` // distinct non-trivial case signatures
	Schedules      []uint64          `json:"schedules"`  // distinct (batch size, permutation) pairs
	LogHashes      []uint64          `json:"log_hashes"` // distinct event-log hashes (interleavings/states reached)
	Samples        []*Plan           `json:"samples"`    // a few of the plans actually run
	Violations     []*Plan           `json:"violations"` // minimised failing plans
	Known          []string          `json:"known"`      // known findings that were reproduced
	ReplayFiles    []string          `json:"replay_files"`
	HarnessErr     string            `json:"harness_err,omitempty"`
	RunHashes      map[string]string `json:"run_hashes,omitempty"` // run index -> event log hash (determinism self-test)

	wantHashes bool
	caseHash   uint64
	sigSet     map[uint64]struct{}
	schedSet   map[uint64]struct{}
	logSet     map[uint64]struct{}
}

func newStats() *Stats {
	return &Stats{
		ByConfig: map[string]int64{}, Probes: map[string]int64{}, Planned: map[string]int64{},
		Fired: map[string]int64{}, Observed: map[string]int64{},
		sigSet: map[uint64]struct{}{}, schedSet: map[uint64]struct{}{}, logSet: map[uint64]struct{}{},
	}
}

func hashStr(s string) uint64 {
	h := fnv.New64a()
	_, _ = h.Write([]byte(s))
	return h.Sum64()
}

// Probe counts a reach probe.
func (s *Stats) Probe(name string) { s.Probes[name]++ }

// ProbeIf counts a reach probe if cond holds.
func (s *Stats) ProbeIf(cond bool, name string) {
	if cond {
		s.Probes[name]++
	}
}

// Signature records a non-trivial case signature.
func (s *Stats) Signature(sig string) { s.sigSet[hashStr(sig)] = struct{}{} }

// NoteOutcome folds an execution into the counters.
func (s *Stats) NoteOutcome(o *Outcome) {
	s.Execs++
	s.SimNs += o.SimNs
	s.Transport += int64(o.Transport)
	for _, k := range sortedKeys(o.FaultsFired) {
		s.Fired[k] += int64(o.FaultsFired[k])
	}
	for i, n := range o.BatchSizes {
		p := o.BatchPerms[i]
		s.schedSet[hashStr(fmt.Sprint(n, p))] = struct{}{}
		if n >= 2 && !isIdentity(p) {
			s.Probes["nonidentity_release"]++
		}
	}
	s.logSet[o.Hash] = struct{}{}
	if o.GatedOps > 0 {
		s.Probes["reads_gated_execution"]++
	}
	if o.GatedChoices > 0 {
		s.Probes["reads_gated_with_real_choice"]++
	}
	if o.GoroutineLeak {
		s.Probes["goroutine_leak_after_return"]++
	}
	if s.wantHashes {
		h := fnv.New64a()
		fmt.Fprintf(h, "%d|%d|%s|%s|%s|%s|%v|%v|%d\n", s.caseHash, o.Hash, o.ErrClass(), o.ErrText, o.Result.Render(), o.Stdout, o.Records, o.BatchPerms, o.SimNs)
		s.caseHash = h.Sum64()
	}
	if o.IdleAdvances > 0 && !o.Hang {
		s.Probes["clock_advanced_for_a_timer_of_the_code_under_test"]++
	}
	for _, st := range o.Streams {
		if st.DataWithEOF {
			s.Probes["read_returned_data_and_eof"]++
		}
		if st.ErrWithData {
			s.Probes["read_returned_data_and_error"]++
		}
		if st.ZeroReads > 0 {
			s.Probes["zero_length_read"]++
		}
		if st.ReadAfterClose > 0 {
			s.Probes["read_after_close"]++
		}
	}
}

func (s *Stats) finish() {
	for k := range s.sigSet {
		s.Signatures = append(s.Signatures, k)
	}
	for k := range s.schedSet {
		s.Schedules = append(s.Schedules, k)
	}
	for k := range s.logSet {
		s.LogHashes = append(s.LogHashes, k)
	}
	sort.Slice(s.Signatures, func(i, j int) bool { return s.Signatures[i] < s.Signatures[j] })
	sort.Slice(s.Schedules, func(i, j int) bool { return s.Schedules[i] < s.Schedules[j] })
	sort.Slice(s.LogHashes, func(i, j int) bool { return s.LogHashes[i] < s.LogHashes[j] })
}

// Property is one claimed property: a plan generator and an oracle.
type Property interface {
	ID() string
	// Gen generates the plan of run number run. tier is quick or thorough.
	Gen(r *Rng, run uint64, tier string) *Plan
	// Expand turns a generated plan into the concrete plans to check
	// (e.g. a single-fault sweep). Most properties return the plan itself.
	Expand(t *testing.T, p *Plan) []*Plan
	// Check executes a concrete plan and judges it. A nil result means the
	// property held. st may be nil (during shrinking and replay).
	Check(t *testing.T, p *Plan, st *Stats) *Violation
}

var registry = map[string]Property{}

func register(p Property) { registry[p.ID()] = p }

// HarnessLimit is panicked (inside Check) when the system under test used a
// part of the stubbed API that the simulator does not implement.
type HarnessLimit struct{ Msg string }

func checkHarnessLimit(o *Outcome) {
	if o.Panic == "" {
		return
	}
	for _, marker := range []string{"verifsim.(*simCli).", "verifsim.(*Daemon)."} {
		idx := strings.Index(o.Panic, marker)
		for idx >= 0 {
			rest := o.Panic[idx+len(marker):]
			name := rest
			if i := strings.IndexAny(rest, "( \n"); i >= 0 {
				name = rest[:i]
			}
			switch name {
			case "Client", "ContainerList", "ContainerLogs", "ev", "note", "cancelled", "sleep", "Parked", "Release", "nextWake", "Sleepers":
			default:
				panic(HarnessLimit{Msg: "system under test called unimplemented stub method " + marker + name})
			}
			next := strings.Index(rest, marker)
			if next < 0 {
				break
			}
			idx = idx + len(marker) + next
		}
	}
}

func envInt(name string, def int64) int64 {
	v := os.Getenv(name)
	if v == "" {
		return def
	}
	n, err := strconv.ParseInt(v, 10, 64)
	if err != nil {
		panic(fmt.Sprintf("bad %s=%q", name, v))
	}
	return n
}

func envUint(name string, def uint64) uint64 {
	v := os.Getenv(name)
	if v == "" {
		return def
	}
	n, err := strconv.ParseUint(v, 10, 64)
	if err != nil {
		// Accept negative spellings too.
		m, err2 := strconv.ParseInt(v, 10, 64)
		if err2 != nil {
			panic(fmt.Sprintf("bad %s=%q", name, v))
		}
		return uint64(m)
	}
	return n
}

// planRng derives the generator of run number run of a property.
func planRng(seed uint64, prop string, run uint64) *Rng {
	return NewRng(seed).SubN("run/"+prop, run)
}

// Main is the worker entry point; it is called from a Test function of the
// binary built by /verif/check. Configuration comes from the environment.
//
//	VERIF_PROP      property id
//	VERIF_SEED      root seed
//	VERIF_TIER      quick | thorough
//	VERIF_WORKER    index of this worker, VERIF_WORKERS total
//	VERIF_MAXRUNS   stop after this many plans (per worker)
//	VERIF_DEADLINE  unix seconds after which no new plan is started
//	VERIF_OUT       where to write the Stats JSON
//	VERIF_MARK      file that receives the index of the run about to start
//	VERIF_REPLAY    replay this plan file instead of generating
//	VERIF_REPLAYDIR where minimised failing plans go
//	VERIF_KNOWN     known-findings file
//	VERIF_HASHES    if 1, record the event-log hash of every run
func Main(t *testing.T) {
	prop := os.Getenv("VERIF_PROP")
	P, ok := registry[prop]
	if !ok {
		t.Fatalf("unknown property %q", prop)
	}
	if op := os.Getenv("VERIF_ONESHOT"); op != "" {
		oneshot(t, op)
		return
	}
	if rp := os.Getenv("VERIF_REPLAY"); rp != "" {
		replay(t, P, rp)
		return
	}
	st := newStats()
	st.Property = prop
	st.Tier = os.Getenv("VERIF_TIER")
	if st.Tier == "" {
		st.Tier = "quick"
	}
	st.Seed = envUint("VERIF_SEED", 1)
	st.Worker = int(envInt("VERIF_WORKER", 0))
	workers := uint64(envInt("VERIF_WORKERS", 1))
	maxRuns := envInt("VERIF_MAXRUNS", 1000)
	deadline := envInt("VERIF_DEADLINE", 0)
	outPath := os.Getenv("VERIF_OUT")
	replayDir := os.Getenv("VERIF_REPLAYDIR")
	known := loadKnown(os.Getenv("VERIF_KNOWN"))
	wantHashes := os.Getenv("VERIF_HASHES") == "1"
	if wantHashes {
		st.RunHashes = map[string]string{}
		st.wantHashes = true
	}
	var mark *os.File
	if mp := os.Getenv("VERIF_MARK"); mp != "" {
		f, err := os.Create(mp)
		if err != nil {
			t.Fatal(err)
		}
		mark = f
		defer f.Close()
	}
	started := time.Now()
	writeOut := func() {
		st.WallNs = int64(time.Since(started))
		st.finish()
		if outPath != "" {
			b, err := json.Marshal(st)
			if err != nil {
				t.Fatal(err)
			}
			if err := os.WriteFile(outPath, b, 0o644); err != nil {
				t.Fatal(err)
			}
		}
	}
	defer func() {
		if r := recover(); r != nil {
			if hl, ok := r.(HarnessLimit); ok {
				st.HarnessErr = hl.Msg
				writeOut()
				return
			}
			// A panic that reaches this goroutine comes from the generator or an
			// oracle (panics of the system under test are caught inside the bubble):
			// harness trouble, never a verdict.
			st.HarnessErr = fmt.Sprintf("harness panic: %v\n%s", r, clip(string(debug.Stack()), 3000))
			writeOut()
			return
		}
	}()

	knownSeen := map[string]bool{}
	var prevStarted time.Time
	var prevRun uint64
	for i := int64(0); i < maxRuns; i++ {
		if deadline > 0 && i%8 == 0 && time.Now().Unix() >= deadline {
			break
		}
		run := uint64(st.Worker) + uint64(i)*workers
		if mark != nil {
			_, _ = mark.WriteAt([]byte(fmt.Sprintf("%020d\n", run)), 0)
		}
		planStarted := time.Now()
		if i > 0 {
			if ms := planStarted.Sub(prevStarted).Milliseconds(); ms > st.SlowestPlanMs {
				st.SlowestPlanMs, st.SlowestPlanRun = ms, prevRun
			}
		}
		prevStarted, prevRun = planStarted, run
		plan := P.Gen(planRng(st.Seed, prop, run), run, st.Tier)
		plan.Property = prop
		plan.Seed = st.Seed
		plan.Run = run
		if dp := os.Getenv("VERIF_DUMP_PLAN"); dp != "" {
			_ = plan.WriteFile(dp)
		}
		st.Plans++
		if len(st.Samples) < 3 && (i == 0 || i == 7 || i == 19) {
			st.Samples = append(st.Samples, slimPlan(plan))
		}
		for _, cp := range P.Expand(t, plan) {
			st.Cases++
			st.ByConfig[cp.Config]++
			for _, f := range cp.Faults {
				st.Planned[f.Kind]++
			}
			st.caseHash = 14695981039346656037
			v := P.Check(t, cp, st)
			if wantHashes {
				vc := ""
				if v != nil {
					vc = v.Class()
				}
				st.RunHashes[fmt.Sprintf("%d/%d", run, st.Cases)] = fmt.Sprintf("%x/%s", st.caseHash, vc)
			}
			if v == nil {
				if hp, ok := P.(interface{ HistorySample(*Plan, int64) bool }); ok && hp.HistorySample(cp, i) {
					v = historyCheck(t, cp, st, outPath)
					if v != nil {
						cp.History = &History{Seed: st.Seed, Tier: st.Tier, Worker: st.Worker, Workers: workers, Index: i}
					}
				}
			}
			if v == nil {
				continue
			}
			cp.Violation = v
			min := cp
			if g := determiniseIfUngated(t, P, cp, v, outPath); g != nil {
				min = g
			} else if cp.History == nil {
				min = Shrink(t, P, cp, v)
				// A violation must replay in a fresh process. If the minimised plan does
				// not, what was seen depends on what this worker had executed before: keep
				// the plan as it was and record the worker's position, which replay re-runs.
				if !reproducesFresh(min, outPath) {
					// First suspect: goroutines of the code under test that ran outside the
					// scheduler (reads and closes are scheduled in a share of the executions
					// only). Put them under it and look for a schedule that shows the same
					// violation; that plan replays.
					if g := determinise(t, P, cp, v, outPath); g != nil {
						min = g
					} else {
						cp.Violation = v
						cp.History = &History{Seed: st.Seed, Tier: st.Tier, Worker: st.Worker, Workers: workers, Index: i}
						v.Detail += " (seen only after the plans this worker had executed before; replay re-runs them)"
						min = cp
					}
				}
			}
			if k := known.match(min); k != "" {
				if !knownSeen[k] {
					knownSeen[k] = true
					st.Known = append(st.Known, k)
				}
				continue
			}
			attachLog(t, P, min)
			st.Violations = append(st.Violations, min)
			if replayDir != "" {
				path := filepath.Join(replayDir, fmt.Sprintf("%s-%d-%d.json", prop, st.Seed, run))
				if err := min.WriteFile(path); err != nil {
					t.Fatal(err)
				}
				st.ReplayFiles = append(st.ReplayFiles, path)
			}
			writeOut()
			return
		}
	}
	writeOut()
}

// attachLog stores the event log of every variant in the plan.
func attachLog(t *testing.T, _ Property, p *Plan) {
	p.EventLog = nil
	for vi := range p.Variants {
		o := Exec(t, p, vi, ExecOpts{Verbose: true})
		p.EventLog = append(p.EventLog, fmt.Sprintf("--- variant %d: %s %s", vi, o.ErrClass(), clip(o.ErrText, 300)))
		if len(o.Log) > 400 {
			o.Log = append(o.Log[:400], fmt.Sprintf("... %d more events", len(o.Log)-400))
		}
		p.EventLog = append(p.EventLog, o.Log...)
	}
}

// slimPlan returns a copy of the plan with long messages clipped, for evidence samples.
func slimPlan(p *Plan) *Plan {
	c := p.Clone()
	for i := range c.World.Containers {
		log := c.World.Containers[i].Log
		if len(log) > 6 {
			log = log[:6]
		}
		for j := range log {
			if len(log[j].Msg) > 64 {
				log[j].Msg = log[j].Msg[:64]
			}
		}
		c.World.Containers[i].Log = log
	}
	if len(c.World.Containers) > 4 {
		c.World.Containers = c.World.Containers[:4]
	}
	return c
}

// determinise re-runs a plan whose violation did not replay with every read and close of
// every variant under the scheduler, under a few scheduler seeds, and returns a minimised
// plan that shows a violation of the same class and replays in a fresh process, or nil.
func determinise(t *testing.T, P Property, cp *Plan, v *Violation, outPath string) *Plan {
	class := v.Class()
	for k := uint64(0); k < 12; k++ {
		g := cp.Clone()
		g.Violation, g.EventLog = nil, nil
		if g.Tags == nil {
			g.Tags = map[string]string{}
		}
		g.Tags["keep_gates"] = "1"
		for vi := range g.Variants {
			g.Variants[vi].GateReads = true
			g.Variants[vi].SchedSeed = (cp.Run+1)*1000003 + k*7919 + uint64(vi)*104729 | 1
		}
		var nv *Violation
		func() {
			defer func() { _ = recover() }()
			nv = P.Check(t, g, nil)
		}()
		if nv == nil || nv.Class() != class {
			continue
		}
		nv.Detail += " (found without the reads under the scheduler, where it did not replay; shown here under a schedule that does)"
		g.Violation = nv
		if !reproducesFresh(g, outPath) {
			// fully scheduled and still not replayable in a fresh process: not a matter of
			// schedules (the caller looks at the worker's history next)
			return nil
		}
		min := Shrink(t, P, g, nv)
		if reproducesFresh(min, outPath) {
			return min
		}
		return g
	}
	return nil
}

// determiniseIfUngated prefers, for a violation found while some reads ran outside the
// scheduler, a plan in which all of them are under it (such a plan replays whatever
// goroutines the code under test starts); nil if the plan was scheduled throughout, is a
// history finding, or shows nothing under the scheduler.
func determiniseIfUngated(t *testing.T, P Property, cp *Plan, v *Violation, outPath string) *Plan {
	if cp.History != nil || cp.Harness == "parselog" || os.Getenv("VERIF_NOSHRINK") == "1" || os.Getenv("VERIF_RACE") == "1" {
		return nil
	}
	ungated := len(cp.Variants) == 0
	for _, vr := range cp.Variants {
		if !vr.GateReads {
			ungated = true
		}
	}
	if !ungated {
		return nil
	}
	return determinise(t, P, cp, v, outPath)
}

// reproducesFresh replays a failing plan in a fresh process and reports whether it fails there too.
func reproducesFresh(p *Plan, outPath string) bool {
	dir := os.TempDir()
	if outPath != "" {
		dir = filepath.Dir(outPath)
	}
	f := filepath.Join(dir, fmt.Sprintf("confirm-%d.json", os.Getpid()))
	if err := p.WriteFile(f); err != nil {
		return true
	}
	defer os.Remove(f)
	cmd := exec.Command(os.Args[0], "-test.run", "^TestSim$", "-test.count", "1", "-test.timeout", "300s")
	cmd.Env = append(os.Environ(), "VERIF_REPLAY="+f, "VERIF_ONESHOT=", "VERIF_OUT=", "VERIF_MARK=")
	out, _ := cmd.CombinedOutput()
	return strings.Contains(string(out), "REPLAY-VIOLATION")
}

// outcomeSummary is what the history check compares: outcome class and canonical result.
func outcomeSummary(o *Outcome) string {
	return o.ErrClass() + "\n" + o.Result.Render() + o.Stdout
}

// oneshot executes variant 0 of a plan in this (fresh) process and prints its summary.
func oneshot(t *testing.T, path string) {
	p, err := ReadPlan(path)
	if err != nil {
		t.Fatalf("read plan: %v", err)
	}
	o := Exec(t, p, 0, ExecOpts{})
	b, _ := json.Marshal(outcomeSummary(o))
	fmt.Printf("ONESHOT %s\n", b)
}

// historyCheck evaluates the plan once more in this long-lived process and once in
// a fresh process; the answers must agree (the answer to a query may not depend on
// which other queries the process evaluated before).
func historyCheck(t *testing.T, p *Plan, st *Stats, outPath string) *Violation {
	o := Exec(t, p, 0, ExecOpts{})
	here := outcomeSummary(o)
	dir := os.TempDir()
	if outPath != "" {
		dir = filepath.Dir(outPath)
	}
	f := filepath.Join(dir, fmt.Sprintf("oneshot-%d.json", os.Getpid()))
	cp := *p
	cp.Violation, cp.EventLog = nil, nil
	if err := cp.WriteFile(f); err != nil {
		panic(HarnessLimit{Msg: "history check: " + err.Error()})
	}
	defer os.Remove(f)
	cmd := exec.Command(os.Args[0], "-test.run", "^TestSim$", "-test.count", "1", "-test.timeout", "120s")
	cmd.Env = append(os.Environ(), "VERIF_ONESHOT="+f, "VERIF_REPLAY=", "VERIF_OUT=", "VERIF_MARK=")
	outb, err := cmd.Output()
	var fresh string
	found := false
	for _, ln := range strings.Split(string(outb), "\n") {
		if strings.HasPrefix(ln, "ONESHOT ") {
			if json.Unmarshal([]byte(strings.TrimPrefix(ln, "ONESHOT ")), &fresh) == nil {
				found = true
			}
		}
	}
	if !found {
		panic(HarnessLimit{Msg: fmt.Sprintf("history check: the fresh process gave no answer (%v): %s", err, clip(string(outb), 500))})
	}
	if st != nil {
		st.Execs++
		st.Probe("answer_compared_with_a_fresh_process")
	}
	if fresh == here {
		return nil
	}
	return &Violation{Property: p.Property, Clause: p.Property + "(e:history-independence)",
		Expected: "the answer a fresh process gives: " + clip(fresh, 500),
		Observed: "after the plans this worker had executed before: " + clip(here, 500),
		Detail:   "query " + p.Query}
}

func replay(t *testing.T, P Property, path string) {
	p, err := ReadPlan(path)
	if err != nil {
		t.Fatalf("read replay file: %v", err)
	}
	if h := p.History; h != nil {
		// Rebuild the worker's state: generate and check its plans 0..Index-1 again.
		for i := int64(0); i < h.Index; i++ {
			run := uint64(h.Worker) + uint64(i)*h.Workers
			plan := P.Gen(planRng(h.Seed, P.ID(), run), run, h.Tier)
			plan.Property, plan.Seed, plan.Run = P.ID(), h.Seed, run
			for _, cp := range P.Expand(t, plan) {
				func() {
					defer func() { _ = recover() }()
					P.Check(t, cp, nil)
				}()
			}
		}
		// the plan's own check comes first (it may prime caches itself, and it may be
		// what failed); its history check second
		var v *Violation
		func() {
			defer func() { _ = recover() }()
			v = P.Check(t, p, nil)
		}()
		if v == nil {
			v = historyCheck(t, p, nil, "")
		}
		if v == nil {
			fmt.Printf("REPLAY-OK property=%s file=%s\n", P.ID(), path)
			return
		}
		b, _ := json.MarshalIndent(v, "", " ")
		fmt.Printf("%s\n", b)
		fmt.Printf("REPLAY-VIOLATION property=%s clause=%s same_as_recorded=%v\n", P.ID(), v.Clause, p.Violation != nil && p.Violation.Class() == v.Class())
		fmt.Printf("VIOLATION property=%s replay=%s\n", P.ID(), path)
		os.Exit(1)
	}
	defer func() {
		if r := recover(); r != nil {
			if hl, ok := r.(HarnessLimit); ok {
				fmt.Printf("HARNESS-LIMIT %s\n", hl.Msg)
				os.Exit(2)
			}
			panic(r)
		}
	}()
	v := P.Check(t, p, nil)
	if v == nil {
		fmt.Printf("REPLAY-OK property=%s file=%s\n", P.ID(), path)
		return
	}
	b, _ := json.MarshalIndent(v, "", " ")
	fmt.Printf("%s\n", b)
	same := p.Violation != nil && p.Violation.Class() == v.Class()
	fmt.Printf("REPLAY-VIOLATION property=%s clause=%s same_as_recorded=%v\n", P.ID(), v.Clause, same)
	fmt.Printf("VIOLATION property=%s replay=%s\n", P.ID(), path)
	os.Exit(1)
}
