package verifsim

import (
	"fmt"
	"regexp"
	"strings"
	"testing"
)

// C14 — failures surface as errors and every opened log reader is closed.
type propC14 struct{}

func init() { register(propC14{}) }

func (propC14) ID() string { return "C14" }

type c14Template struct {
	name      string
	metric    bool
	twoSel    bool
	expectErr bool // the query itself is invalid/unsupported: evaluation must fail
	limitable bool
	// eitherWay: whether the query is accepted is not settled (e.g. a matching
	// modifier on a scalar operation); only panics, hangs and reader accounting are judged.
	eitherWay bool
	// undetermined: LogQL leaves the answer open (ties, float summation order), so
	// the result is not compared with the twin's; errors and closes still are.
	undetermined bool
	build        func(a, b, rng string) string
}

var c14Templates = []c14Template{
	{name: "log", limitable: true, build: func(a, _, _ string) string { return a }},
	{name: "log_filter", limitable: true, build: func(a, _, _ string) string { return a + ` |= "r"` }},
	{name: "log_filter_some", limitable: true, build: func(a, _, _ string) string { return a + ` |= "r1"` }},
	{name: "log_stages", limitable: true, build: func(a, _, _ string) string {
		return a + ` | label_format origin=container | line_format "{{ .container }} {{ __line__ }}"`
	}},
	{name: "count", metric: true, build: func(a, _, r string) string { return "count_over_time(" + a + "[" + r + "])" }},
	{name: "bytes", metric: true, build: func(a, _, r string) string { return "bytes_over_time(" + a + "[" + r + "])" }},
	{name: "rate_filter", metric: true, build: func(a, _, r string) string { return "rate(" + a + ` |= "r" [` + r + "])" }},
	{name: "sum_by", metric: true, build: func(a, _, r string) string { return "sum by (container) (count_over_time(" + a + "[" + r + "]))" }},
	{name: "max_without", metric: true, build: func(a, _, r string) string { return "max without (msg) (count_over_time(" + a + "[" + r + "]))" }},
	{name: "topk", metric: true, undetermined: true, build: func(a, _, r string) string {
		return "topk(2, sum by (container) (count_over_time(" + a + "[" + r + "])))"
	}},
	{name: "vec_lit", metric: true, build: func(a, _, r string) string { return "count_over_time(" + a + "[" + r + "]) * 2" }},
	{name: "lit_vec", metric: true, build: func(a, _, r string) string { return "100 - count_over_time(" + a + "[" + r + "])" }},
	{name: "cmp_bool", metric: true, build: func(a, _, r string) string {
		return "sum by (container) (count_over_time(" + a + "[" + r + "])) > bool 1"
	}},
	{name: "unwrap_max", metric: true, build: func(a, _, r string) string {
		return "max_over_time(" + a + " | unwrap weight [" + r + "]) by (container)"
	}},
	{name: "binop", metric: true, twoSel: true, build: func(a, b, r string) string {
		return "sum by (container) (count_over_time(" + a + "[" + r + "])) + sum by (container) (count_over_time(" + b + "[" + r + "]))"
	}},
	{name: "count_offset", metric: true, build: func(a, _, r string) string { return "count_over_time(" + a + "[" + r + "] offset 5s)" }},
	{name: "lit_on", metric: true, eitherWay: true, build: func(a, _, r string) string {
		return "count_over_time(" + a + "[" + r + "]) * on (container) 2"
	}},
	// the bool modifier on an arithmetic operator: accepted and ignored, or rejected - after the readers are open
	{name: "lit_bool_arith", metric: true, eitherWay: true, build: func(a, _, r string) string {
		return "count_over_time(" + a + "[" + r + "]) * bool 2"
	}},
	{name: "lit_bool_arith_left", metric: true, eitherWay: true, build: func(a, _, r string) string {
		return "2 + bool sum by (container) (count_over_time(" + a + "[" + r + "]))"
	}},
	{name: "vec_bool_arith", metric: true, twoSel: true, eitherWay: true, build: func(a, b, r string) string {
		return "sum by (container) (count_over_time(" + a + "[" + r + "])) - bool sum by (container) (count_over_time(" + b + "[" + r + "]))"
	}},
	{name: "lit_ignoring", metric: true, eitherWay: true, build: func(a, _, r string) string {
		return "2 < bool ignoring (msg) sum by (container) (count_over_time(" + a + "[" + r + "]))"
	}},
	{name: "nested_parens", metric: true, build: func(a, _, r string) string {
		return "((sum by (container) ((count_over_time(" + a + "[" + r + "])))) + 2)"
	}},
	{name: "vector_plus", metric: true, build: func(a, _, r string) string {
		return "sum by (container) (count_over_time(" + a + "[" + r + "])) + vector(1)"
	}},
	{name: "sum_unwrap", metric: true, build: func(a, _, r string) string { return "sum_over_time(" + a + " | unwrap weight [" + r + "])" }},
	{name: "avg_unwrap_by", metric: true, build: func(a, _, r string) string {
		return "avg_over_time(" + a + " | unwrap weight [" + r + "]) by (container)"
	}},
	{name: "quantile_unwrap", metric: true, build: func(a, _, r string) string {
		return "quantile_over_time(0.5, " + a + " | unwrap weight [" + r + "]) by (container)"
	}},
	{name: "first_last", metric: true, twoSel: true, build: func(a, b, r string) string {
		return "first_over_time(" + a + " | unwrap weight [" + r + "]) by (container) - last_over_time(" + b + " | unwrap weight [" + r + "]) by (container)"
	}},
	{name: "avg_by", metric: true, undetermined: true, build: func(a, _, r string) string { return "avg by (container_image) (count_over_time(" + a + "[" + r + "]))" }},
	{name: "count_by", metric: true, build: func(a, _, r string) string {
		return "count by (container_image) (bytes_over_time(" + a + "[" + r + "]))"
	}},
	{name: "stddev_by", metric: true, undetermined: true, build: func(a, _, r string) string {
		return "stddev by (container_image) (count_over_time(" + a + "[" + r + "]))"
	}},
	{name: "sort_desc", metric: true, undetermined: true, build: func(a, _, r string) string {
		return "sort_desc(sum by (container) (count_over_time(" + a + "[" + r + "])))"
	}},
	{name: "bottomk_by", metric: true, undetermined: true, build: func(a, _, r string) string {
		return "bottomk by (container_image) (1, count_over_time(" + a + "[" + r + "]))"
	}},
	{name: "json_unwrap", metric: true, build: func(a, _, r string) string {
		return "max_over_time(" + a + " | logfmt | unwrap k [" + r + "]) by (container)"
	}},
	{name: "log_parsers", limitable: true, build: func(a, _, _ string) string { return a + ` | logfmt | k >= 0 | drop msg` }},
	{name: "log_distinct", limitable: true, build: func(a, _, _ string) string { return a + ` | distinct container` }},
	{name: "log_keep", limitable: true, build: func(a, _, _ string) string { return a + ` | keep container, container_id` }},
	{name: "binop_or", metric: true, twoSel: true, build: func(a, b, r string) string {
		return "sum by (container) (count_over_time(" + a + "[" + r + "])) or sum by (container) (bytes_over_time(" + b + "[" + r + "]))"
	}},
	{name: "binop_nested", metric: true, twoSel: true, build: func(a, b, r string) string {
		return "(count_over_time(" + a + "[" + r + "]) * 2) unless sum by (container) (count_over_time(" + b + "[" + r + "]))"
	}},
	// Invalid or unsupported queries: must fail, and must not leak what they opened.
	{name: "bad_stage_log", expectErr: true, build: func(a, _, _ string) string { return a + ` | line_format "{{ .foo "` }},
	{name: "bad_stage_label_format", expectErr: true, build: func(a, _, _ string) string { return a + ` | label_format x="{{ "` }},
	{name: "bad_stage_metric", metric: true, expectErr: true, build: func(a, _, r string) string {
		return "count_over_time(" + a + ` | line_format "{{ .foo " [` + r + "])"
	}},
	{name: "absent", metric: true, expectErr: true, build: func(a, _, r string) string { return "absent_over_time(" + a + "[" + r + "])" }},
	{name: "rate_counter", metric: true, expectErr: true, build: func(a, _, r string) string {
		return "rate_counter(" + a + " | unwrap weight [" + r + "])"
	}},
	{name: "binop_on", metric: true, twoSel: true, expectErr: true, build: func(a, b, r string) string {
		return "count_over_time(" + a + "[" + r + "]) + on(container) count_over_time(" + b + "[" + r + "])"
	}},
	{name: "binop_right_bad_stage", metric: true, twoSel: true, expectErr: true, build: func(a, b, r string) string {
		return "count_over_time(" + a + "[" + r + "]) + count_over_time(" + b + ` | line_format "{{ .foo " [` + r + "])"
	}},
	{name: "binop_right_absent", metric: true, twoSel: true, expectErr: true, build: func(a, b, r string) string {
		return "count_over_time(" + a + "[" + r + "]) / absent_over_time(" + b + "[" + r + "])"
	}},
	{name: "vecagg_over_absent", metric: true, expectErr: true, build: func(a, _, r string) string {
		return "sum by (container) (absent_over_time(" + a + "[" + r + "]))"
	}},
	{name: "label_replace", metric: true, expectErr: true, build: func(a, _, r string) string {
		return `label_replace(count_over_time(` + a + "[" + r + `]), "dst", "$1", "container", "(.*)")`
	}},
}

// c14AheadOfLimit places a fault just behind what a consumer that stops at the limit has
// taken from one stream (anything from one peeked record to limit+1), or a read-ahead
// buffer's length further (some power of two, give or take one).
func c14AheadOfLimit(fr *Rng, limit, n int) int {
	taken := limit
	if fr.Bool(0.5) {
		taken = fr.Intn(limit + 2)
	}
	ahead := 0
	if fr.Bool(0.7) {
		ahead = (8 << fr.Intn(4)) + fr.Intn(4) - 1 // 7..10, 15..18, 31..34, 63..66
	} else if fr.Bool(0.3) {
		ahead = 1
	}
	fi := taken + ahead
	if fi >= n {
		fi = limit
	}
	if fi >= n {
		fi = n - 1
	}
	return fi
}

func c14TemplateByName(name string) *c14Template {
	for i := range c14Templates {
		if c14Templates[i].name == name {
			return &c14Templates[i]
		}
	}
	panic("verifsim: unknown C14 template " + name)
}

// nameSelector returns a selector matching exactly the given containers by name.
func nameSelector(cs []*Container) string {
	if len(cs) == 0 {
		return `{container="nobody"}`
	}
	var alts []string
	for _, c := range cs {
		alts = append(alts, regexp.QuoteMeta(c.Name()))
	}
	if len(alts) == 1 {
		return "{container=" + quoteLogQL(cs[0].Name()) + "}"
	}
	return "{container=~" + quoteLogQL(strings.Join(alts, "|")) + "}"
}

func genSelection(r *Rng, w *World) (string, []*Container) {
	var all []*Container
	for i := range w.Containers {
		all = append(all, &w.Containers[i])
	}
	if r.Bool(0.55) {
		return "{}", all
	}
	var sub []*Container
	for _, c := range all {
		if r.Bool(0.6) {
			sub = append(sub, c)
		}
	}
	return nameSelector(sub), sub
}

type posSpec struct {
	frame int
	class string
}

// faultOffset picks a byte offset of the given class in frame fi of the layout.
func faultOffset(r *Rng, l Layout, fi int, class string) int {
	start, end := l.FrameStart(fi), l.Ends[fi]
	switch class {
	case "boundary":
		return start
	case "header":
		return start + 1 + r.Intn(7)
	case "hdr_body":
		return start + 8
	case "last":
		return end - 1
	default: // body
		if end-start <= 10 {
			return end - 1
		}
		return start + 9 + r.Intn(end-start-9)
	}
}

func (propC14) Gen(r *Rng, run uint64, tier string) *Plan {
	p := &Plan{Harness: "engine", Tags: map[string]string{}, Config: "faults"}
	sweep := r.Bool(0.18)
	step := []int64{5, 10, 20}[r.Intn(3)] * sec
	nsteps := int64(4 + r.Intn(5))
	rng := []int64{10, 20, 60}[r.Intn(3)] * sec
	start := BaseNs
	end := start + nsteps*step
	spec := WorldSpec{NMin: 1, NMax: 6, RecMin: 0, RecMax: 10, Lo: start - rng + sec + 1, Hi: end - sec - 1, Grid: sec, TieProb: 0,
		Msg: "token", AllNamed: true, NoHuge: true, OffSecond: true, Labels: "prefix"}
	if r.Bool(0.5) {
		// Early records: several steps remain after any fault position.
		spec.Hi = start + step - 1
	}
	if r.Bool(0.3) {
		spec.Msg = "rich"
	} else if r.Bool(0.3) {
		spec.Msg = "structured"
	}
	if r.Bool(0.3) {
		spec.NMax = 1
	}
	if r.Bool(0.3) {
		// runs of records that share one timestamp within a container's log
		spec.DupTS = 0.25
	}
	if !sweep {
		switch x := r.Intn(100); {
		case x < 6:
			spec.NMin, spec.NMax, spec.RecMax = 7, 24, 5
		case x < 8:
			spec.NMin, spec.NMax, spec.RecMax = 30, 70, 2
			if r.Bool(0.4) {
				spec.NMin, spec.NMax = 129, 160
			}
		case x < 18:
			spec.RecMin, spec.RecMax = 20, 90
		case x < 19:
			spec.NoHuge, spec.Msg, spec.RecMax = false, "rich", 5
		case x < 21:
			// one very long log (whatever is done every so-many records happens a few times)
			spec.NMin, spec.NMax, spec.RecMin, spec.RecMax, spec.Msg = 1, 1, 1100, 2600, "token"
			p.Tags["long_log"] = "1"
		}
	}
	if sweep {
		spec.NMax, spec.RecMax, spec.Msg = 3, 4, "token"
		if r.Bool(0.4) {
			spec.NMax = 1
		}
	}
	p.World = GenWorld(r.Sub("world"), spec)
	for i := range p.World.Containers {
		// unwrap_max needs a numeric label on some containers.
		if r.Bool(0.5) {
			if p.World.Containers[i].Labels == nil {
				p.World.Containers[i].Labels = map[string]string{}
			}
			p.World.Containers[i].Labels["weight"] = fmt.Sprint(1 + r.Intn(9))
		}
	}
	tpl := &c14Templates[r.Intn(len(c14Templates))]
	if r.Bool(0.35) {
		// Bias towards the plain shapes.
		tpl = c14TemplateByName([]string{"log", "log_filter", "count", "sum_by", "binop", "vec_lit"}[r.Intn(6)])
	}
	selA, contA := genSelection(r.Sub("selA"), &p.World)
	selB, contB := "", []*Container(nil)
	if tpl.twoSel {
		selB, contB = genSelection(r.Sub("selB"), &p.World)
	}
	p.Query = tpl.build(selA, selB, durText(rng))
	p.Tags["template"] = tpl.name
	p.Tags["selA"], p.Tags["selB"], p.Tags["range"] = selA, selB, durText(rng)
	if tpl.expectErr {
		p.Tags["expect_error"] = "1"
	}
	if tpl.undetermined {
		p.Tags["undetermined"] = "1"
	}
	if tpl.eitherWay {
		p.Tags["either_way"] = "1"
	}
	p.Params = Params{Start: start, End: end, StepNs: step, Limit: -1}
	if tpl.metric {
		if r.Bool(0.25) {
			// Instant query at the end of the log.
			p.Params.Start, p.Params.End, p.Params.StepNs = end, end, 0
			p.Tags["instant"] = "1"
			rngAll := end - (start - rng)
			_ = rngAll
		}
	} else {
		p.Params.Start = start - rng
		if tpl.limitable && r.Bool(0.45) {
			p.Params.Limit = 1 + r.Intn(5)
		}
		if r.Bool(0.15) {
			// Instant log query: the window is [End+lookback, End].
			p.Params.Start, p.Params.StepNs = p.Params.End, 0
			p.Params.LookbackNs = -(end - (start - rng) + sec)
			p.Tags["instant"] = "1"
		}
	}
	if r.Bool(0.04) && p.Tags["instant"] != "1" {
		// an inverted range (start after end): nothing to evaluate, but whatever was opened must be closed
		p.Params.Start, p.Params.End = p.Params.End, p.Params.Start
		p.Tags["either_way"] = "1"
		p.Tags["inverted_range"] = "1"
	}
	if !tpl.metric && p.Tags["instant"] != "1" && r.Bool(0.25) {
		// Command level: the real cobra command; a failure must come back from
		// Execute as an error and nothing may have been printed.
		p.Harness = "cli"
		argv := []string{"query", "--color=false", fmt.Sprintf("--start=%d", p.Params.Start), fmt.Sprintf("--end=%d", p.Params.End)}
		if p.Params.Limit > 0 {
			argv = append(argv, fmt.Sprintf("--limit=%d", p.Params.Limit))
		}
		p.CLI = &CLI{Now: end + 3600*sec, Argv: append(argv, p.Query)}
	}
	sizes := []int{len(contA)}
	if tpl.twoSel {
		sizes = append(sizes, len(contB))
	}
	p.Variants = []Variant{genVariant(r.Sub("variant"), sizes, int64(run), true, true)}

	if sweep {
		p.Tags["sweep"] = "all"
		if tier == "thorough" && r.Bool(0.25) {
			// thorough tier: every pair of single faults of a small world
			p.Tags["sweep"] = "pairs"
		}
		return p
	}
	// Random faults: one (80%) or two (20%).
	opened := append(append([]*Container(nil), contA...), contB...)
	nf := 1
	if r.Bool(0.2) {
		nf = 2
	}
	fr := r.Sub("faults")
	for k := 0; k < nf; k++ {
		var c *Container
		if len(opened) > 24 && fr.Bool(0.5) {
			// large selections: the last few requests (whatever is done in waves, batches or
			// pools treats the tail differently from the head)
			c = opened[len(opened)-1-fr.Intn(12)]
			p.Tags["fault_in_tail"] = "1"
		} else if len(opened) > 0 && !fr.Bool(0.05) {
			c = opened[fr.Intn(len(opened))]
		} else {
			c = &p.World.Containers[fr.Intn(len(p.World.Containers))]
		}
		open := -1
		if tpl.twoSel && fr.Bool(0.6) {
			open = fr.Intn(2)
		}
		l, _ := BuildStream(c, stdOpts(), nil)
		kind := []string{FaultCut, FaultCut, FaultReadError, FaultReadError, FaultFrame, FaultFrame, FaultOpenError, FaultOpenError, FaultListError, FaultCancel, FaultSlowRead, FaultOpenLatency, FaultCloseError, FaultCtxCancel}[fr.Intn(14)]
		if len(l.Ends) == 0 && (kind == FaultCut || kind == FaultFrame || kind == FaultSlowRead) {
			kind = FaultReadError
		}
		if p.Tags["long_log"] == "1" && fr.Bool(0.6) {
			kind = []string{FaultCtxCancel, FaultCtxCancel, FaultCancel}[fr.Intn(3)]
		}
		f := Fault{Kind: kind, Container: c.ID, Open: open}
		switch kind {
		case FaultCut, FaultReadError, FaultSlowRead:
			if len(l.Ends) == 0 {
				f.Offset = 0
				p.Tags["pos"] = "boundary"
				break
			}
			fi := []int{0, 0, len(l.Ends) / 2, len(l.Ends) - 1, fr.Intn(len(l.Ends))}[fr.Intn(5)]
			if p.Params.Limit > 0 && fr.Bool(0.4) && p.Params.Limit < len(l.Ends) {
				// record L+1 under limit L, or a buffer's length further (a prefetching reader
				// runs ahead of the consumer by some power of two)
				fi = c14AheadOfLimit(fr, p.Params.Limit, len(l.Ends))
				p.Tags["fault_at_limit_plus_one"] = "1"
			}
			class := []string{"boundary", "header", "hdr_body", "body", "body", "last"}[fr.Intn(6)]
			f.Offset = faultOffset(fr, l, fi, class)
			if kind == FaultReadError && fr.Bool(0.1) {
				f.Offset = len(l.Data) // error instead of the final EOF
				class = "end"
			}
			f.DelayMs = 1 + fr.Intn(3000)
			switch {
			case kind == FaultCut && fr.Bool(0.4):
				f.ErrKind = "unexpected"
			case kind == FaultReadError:
				f.ErrKind = []string{"", "", "deadline", "closed", "with_data", "reset", "reset", "epipe", "canceled", "wraps_unexpected_eof", "wraps_eof"}[fr.Intn(11)]
			}
			if open < 0 && fr.Bool(0.4) {
				// only the first request for this container's log fails (a second one,
				// should the code ask again, is served)
				f.Open = 0
			}
			p.Tags["pos"] = class
			p.Tags["frame"] = fmt.Sprint(fi)
		case FaultFrame:
			f.Frame = []int{0, 0, len(l.Ends) / 2, len(l.Ends) - 1, fr.Intn(len(l.Ends))}[fr.Intn(5)]
			if p.Params.Limit > 0 && fr.Bool(0.4) && p.Params.Limit < len(l.Ends) {
				f.Frame = c14AheadOfLimit(fr, p.Params.Limit, len(l.Ends))
				p.Tags["fault_at_limit_plus_one"] = "1"
			}
			f.FrameKind = frameKindsAll[fr.Intn(len(frameKindsAll))]
			p.Tags["pos"] = "frame:" + f.FrameKind
			p.Tags["frame"] = fmt.Sprint(f.Frame)
		case FaultListError:
			f.Container = ""
			f.K = 0
			if tpl.twoSel && fr.Bool(0.5) {
				f.K = 1
			}
		case FaultCancel, FaultCtxCancel:
			f.Container = ""
			f.Event = -(1 + fr.Intn(1_000_000)) // relative; resolved against the twin's event count
		case FaultOpenLatency:
			f.DelayMs = 1 + fr.Intn(5000)
		case FaultOpenError:
			// the daemon's typed errors: "no such container" (removed since the listing),
			// "logging driver does not support reading"
			f.ErrKind = []string{"", "", "not_found", "not_implemented"}[fr.Intn(4)]
		case FaultCloseError:
			// Close of this reader reports an error: every other reader must still be closed.
			p.Tags["pos"] = "close"
		}
		p.Faults = append(p.Faults, f)
	}
	return p
}

// c14Twin returns the plan without faults, except that clean stream ends stay:
// a cut at a frame boundary or inside a frame header is a clean end of the
// log (C03), not a failure, so the twin ends that stream at the same frame boundary.
func c14Twin(p *Plan, keepClean bool, streams func(id string, open int) (Layout, bool)) *Plan {
	c := *p
	c.Faults = nil
	c.Violation = nil
	if !keepClean {
		return &c
	}
	for _, f := range p.Faults {
		if f.Kind != FaultCut {
			continue
		}
		// Applies per opened stream; Open = -1 covers all opens of the container.
		opens := []int{f.Open}
		if f.Open < 0 {
			opens = []int{0, 1, 2, 3}
		}
		for _, oi := range opens {
			l, ok := streams(f.Container, oi)
			if !ok {
				continue
			}
			si := ComputeStop(l, p.Faults, f.Container, oi)
			if si.Kind != FaultCut || si.Stop != f.Offset {
				continue
			}
			if si.Class == "boundary" || si.Class == "header" {
				nf := f
				nf.Open = oi
				nf.Offset = l.FrameStart(si.Whole)
				if si.Whole >= len(l.Ends) {
					continue
				}
				c.Faults = append(c.Faults, nf)
			}
		}
	}
	return &c
}

func (propC14) Expand(t *testing.T, p *Plan) []*Plan {
	if !parses(p.Query) {
		return []*Plan{p}
	}
	twin := c14Twin(p, false, nil)
	twin.Config = "faultfree"
	baseTags := func() map[string]string {
		return map[string]string{"template": p.Tags["template"], "expect_error": p.Tags["expect_error"], "instant": p.Tags["instant"], "undetermined": p.Tags["undetermined"], "either_way": p.Tags["either_way"],
			"selA": p.Tags["selA"], "selB": p.Tags["selB"], "range": p.Tags["range"]}
	}
	twin.Tags = baseTags()
	twin.Tags["twin"] = "1"
	o := Exec(t, twin, 0, ExecOpts{})
	out := []*Plan{twin}
	if o.Bad() {
		return out // the twin case itself reports it
	}
	mk := func(f Fault, pos string, batches [][]int) *Plan {
		cp := *p
		cp.Faults = []Fault{f}
		cp.Tags = baseTags()
		cp.Tags["pos"], cp.Tags["from_sweep"] = pos, "1"
		if batches != nil {
			v := p.Variants[0]
			v.Batches = batches
			cp.Variants = []Variant{v}
		}
		return &cp
	}
	if p.Tags["sweep"] != "all" && p.Tags["sweep"] != "pairs" {
		cp := *p
		cp.Faults = append([]Fault(nil), p.Faults...)
		for i := range cp.Faults {
			if (cp.Faults[i].Kind == FaultCancel || cp.Faults[i].Kind == FaultCtxCancel) && cp.Faults[i].Event < 0 {
				n := o.Transport
				if n < 1 {
					n = 1
				}
				cp.Faults[i].Event = 1 + (-cp.Faults[i].Event)%n
			}
		}
		return append(out, &cp)
	}
	// Single-fault enumeration over everything the twin run touched.
	for k := range o.Lists {
		out = append(out, mk(Fault{Kind: FaultListError, Open: -1, K: k}, "list", nil))
	}
	for e := 1; e <= o.Transport; e++ {
		out = append(out, mk(Fault{Kind: FaultCancel, Open: -1, Event: e}, "cancel", nil))
		if e <= 40 {
			out = append(out, mk(Fault{Kind: FaultCtxCancel, Open: -1, Event: e}, "ctx_cancel", nil))
		}
	}
	// Batch sizes of the twin, to enumerate release orders for open errors.
	for _, oc := range o.Opens {
		var orders [][][]int
		if len(o.BatchSizes) > 0 && oc.Batch < len(o.BatchSizes) && o.BatchSizes[oc.Batch] <= 3 {
			n := o.BatchSizes[oc.Batch]
			for idx := 0; idx < factorial(n); idx++ {
				b := make([][]int, len(o.BatchSizes))
				for bi := range b {
					if bi < len(p.Variants[0].Batches) {
						b[bi] = p.Variants[0].Batches[bi]
					}
				}
				b[oc.Batch] = LehmerPerm(n, uint64(idx))
				orders = append(orders, b)
			}
		} else {
			orders = [][][]int{nil}
		}
		for _, b := range orders {
			out = append(out, mk(Fault{Kind: FaultOpenError, Container: oc.ID, Open: oc.OpenIdx}, "open", b))
		}
		out = append(out, mk(Fault{Kind: FaultCloseError, Container: oc.ID, Open: oc.OpenIdx}, "close", nil))
		c := p.World.Find(oc.ID)
		if c == nil {
			continue
		}
		l, err := BuildStream(c, oc.Opts, nil)
		if err != nil {
			continue
		}
		for off := 0; off <= len(l.Data); off++ {
			class, _ := l.Classify(off)
			if off < len(l.Data) {
				ek := ""
				if p.Run%2 == 1 {
					ek = "unexpected"
				}
				out = append(out, mk(Fault{Kind: FaultCut, Container: oc.ID, Open: oc.OpenIdx, Offset: off, ErrKind: ek}, class, nil))
			}
			if off == len(l.Data) {
				class = "end"
			}
			out = append(out, mk(Fault{Kind: FaultReadError, Container: oc.ID, Open: oc.OpenIdx, Offset: off, ErrKind: []string{"", "with_data", "deadline", "wraps_unexpected_eof", "wraps_eof"}[p.Run%5]}, class, nil))
		}
		for fi := range l.Ends {
			for _, fk := range frameKindsAll {
				out = append(out, mk(Fault{Kind: FaultFrame, Container: oc.ID, Open: oc.OpenIdx, Frame: fi, FrameKind: fk}, "frame:"+fk, nil))
			}
		}
	}
	if p.Tags["sweep"] == "pairs" {
		// Combine the single faults pairwise (capped): error aggregation, double
		// failures on the cleanup path, a failure behind a failure.
		singles := out[1:]
		stride := 1
		for len(singles)*len(singles)/(2*stride*stride) > 4000 {
			stride++
		}
		for i := 0; i < len(singles); i += stride {
			for j := i + 1; j < len(singles); j += stride {
				a, b := singles[i].Faults[0], singles[j].Faults[0]
				if a.Kind == FaultCancel || b.Kind == FaultCancel || a.Kind == FaultCtxCancel || b.Kind == FaultCtxCancel {
					continue
				}
				cp := *singles[i]
				cp.Faults = []Fault{a, b}
				cp.Tags = baseTags()
				cp.Tags["pos"], cp.Tags["from_sweep"] = singles[i].Tags["pos"]+"+"+singles[j].Tags["pos"], "pairs"
				out = append(out, &cp)
			}
		}
	}
	return out
}

// c14Observed lists the faults the code under test was told about.
func c14Observed(o *Outcome) []string {
	var obs []string
	if o.CtxCancelled {
		// the evaluation's context was cancelled while the daemon went on answering:
		// code that looks at the context may fail, code that does not may finish
		obs = append(obs, FaultCtxCancel)
	}
	if o.FaultsFired[FaultListError] > 0 {
		obs = append(obs, FaultListError)
	}
	for _, l := range o.Lists {
		if l.Failed && o.FaultsFired[FaultListError] == 0 {
			obs = append(obs, FaultCancel)
		}
	}
	for _, oc := range o.Opens {
		switch {
		case strings.Contains(oc.Err, "injected"):
			obs = append(obs, FaultOpenError)
		case strings.Contains(oc.Err, "context canceled"):
			obs = append(obs, FaultCancel)
		}
	}
	for _, s := range o.Streams {
		if s.CancelObserved {
			obs = append(obs, FaultCancel)
		}
		if s.ErrDelivered {
			obs = append(obs, FaultReadError)
		}
		if s.CloseErrDelivered {
			// an implementation may report a failing Close or ignore it
			obs = append(obs, FaultCloseError)
		}
		if s.EOFDelivered && (s.CutClass == "hdr_body" || s.CutClass == "body") {
			obs = append(obs, FaultCut)
		}
		if s.BadFrameEnd > 0 && s.Delivered >= s.BadFrameEnd {
			obs = append(obs, FaultFrame)
		}
	}
	return obs
}

// c14Unanswered lists the failures delivered to the code that it did not answer by a
// later, successful request for the same thing (the same container's log, the list).
func c14Unanswered(o *Outcome) []string {
	var un []string
	reasked := func(id string, after int) bool {
		for _, oc := range o.Opens {
			if oc.ID == id && oc.OpenIdx > after && oc.Err == "" {
				return true
			}
		}
		return false
	}
	for i, l := range o.Lists {
		if !l.Failed {
			continue
		}
		again := false
		for _, l2 := range o.Lists[i+1:] {
			if !l2.Failed {
				again = true
			}
		}
		if !again {
			un = append(un, FaultListError)
		}
	}
	for _, oc := range o.Opens {
		if oc.Err != "" && !reasked(oc.ID, oc.OpenIdx) {
			if strings.Contains(oc.Err, "injected") {
				un = append(un, FaultOpenError)
			} else {
				un = append(un, FaultCancel)
			}
		}
	}
	for _, s := range o.Streams {
		kind := ""
		switch {
		case s.CancelObserved:
			kind = FaultCancel
		case s.ErrDelivered:
			kind = FaultReadError
		case s.EOFDelivered && (s.CutClass == "hdr_body" || s.CutClass == "body"):
			kind = FaultCut
		case s.BadFrameEnd > 0 && s.Delivered >= s.BadFrameEnd:
			kind = FaultFrame
		}
		if kind != "" && !reasked(s.ID, s.OpenIdx) {
			un = append(un, kind)
		}
	}
	return un
}

func (propC14) Check(t *testing.T, p *Plan, st *Stats) *Violation {
	viol := func(clause, exp, obs string) *Violation {
		return &Violation{Property: "C14", Clause: clause, Expected: exp, Observed: obs,
			Detail: fmt.Sprintf("query %s; faults %s", p.Query, mustJSON(p.Faults))}
	}
	if !parses(p.Query) {
		if st != nil {
			st.Skipped++
		}
		return nil
	}
	expectErr := p.Tags["expect_error"] == "1"
	o := Exec(t, p, 0, ExecOpts{})
	checkHarnessLimit(o)
	observed := c14Observed(o)
	if st != nil {
		st.NoteOutcome(o)
		for _, k := range observed {
			st.Observed[k]++
		}
		fk := faultKindOf(p)
		nontrivial := len(observed) > 0 || len(o.Opens) >= 2
		if nontrivial {
			rel := ""
			for _, oc := range o.Opens {
				if oc.Err != "" {
					rel = fmt.Sprintf("fail@%d/%d", oc.ReleaseOrd, len(o.Opens))
				}
			}
			st.Signature(fmt.Sprintf("%s|%s|%s|n=%d|%s|%s|%s|obs=%v|lim=%v|%v", p.Harness, p.Tags["template"], p.Tags["instant"], len(o.Opens), fk, p.Tags["pos"], rel, len(observed) > 0, p.Params.Limit > 0, o.BatchPerms))
		}
		st.Probe("template_" + p.Tags["template"])
		st.ProbeIf(p.Harness == "cli", "command_level")
		st.ProbeIf(p.Harness == "cli" && len(observed) > 0, "command_level_fault_observed")
		for _, s := range o.Streams {
			if s.CutClass != "" && s.EOFDelivered {
				st.Probe("cut_" + s.CutClass + "_delivered")
			}
		}
		st.ProbeIf(len(p.Faults) > 0 && len(observed) == 0, "fault_not_observed")
		st.ProbeIf(len(p.Faults) > 0 && len(observed) == 0 && p.Params.Limit > 0, "fault_after_limit_unobserved")
		st.ProbeIf(p.Tags["fault_at_limit_plus_one"] == "1", "fault_at_limit_plus_one")
		for _, oc := range o.Opens {
			if oc.Err != "" && len(o.Opens) >= 2 {
				n := 0
				for _, x := range o.Opens {
					if x.Batch == oc.Batch {
						n++
					}
				}
				first, last := true, true
				for _, x := range o.Opens {
					if x.Batch == oc.Batch && x.ReleaseOrd < oc.ReleaseOrd {
						first = false
					}
					if x.Batch == oc.Batch && x.ReleaseOrd > oc.ReleaseOrd {
						last = false
					}
				}
				st.ProbeIf(first && n >= 2, "open_error_released_first")
				st.ProbeIf(last && n >= 2, "open_error_released_last")
				st.ProbeIf(!first && !last, "open_error_released_between")
				st.ProbeIf(oc.Batch == 1, "right_operand_fails_after_left_open")
			}
		}
		for i, s := range o.Streams {
			if (s.ErrDelivered || s.BadFrameEnd > 0 && s.Delivered >= s.BadFrameEnd) && s.WholeFramesBeforeStop == 0 && i > 0 && len(o.Streams) >= 2 {
				st.Probe("fault_on_first_record_of_nonfirst_source")
			}
			if s.ErrDelivered && s.Reads > 0 {
				// reads after the failing one = the iterator was polled again
				st.ProbeIf(p.Tags["template"] != "log" && len(o.Streams) == 1, "single_source_metric_fault")
			}
		}
		st.ProbeIf(len(o.Opens) == 1, "one_container")
		st.ProbeIf(len(o.Opens) >= 2, "many_containers")
		st.ProbeIf(len(o.BatchSizes) >= 2, "two_open_batches")
		st.ProbeIf(expectErr && len(o.Opens) > 0, "invalid_query_after_open")
	}
	if o.Panic != "" {
		return viol("C14(panic)", "an error, not a panic", clip(o.Panic, 800))
	}
	if o.Hang {
		return viol("C14(hang)", "evaluation returns once all requests are answered", "evaluation never returned")
	}
	// (iii) every reader handed out is closed by the time evaluation returns.
	closeViol := func(oo *Outcome, which string) *Violation {
		for _, s := range oo.Streams {
			if s.Closes >= 1 && s.OpenAtReturn {
				return viol("C14(iii:reader-closed-late)", "every opened log reader closed by the time evaluation returns ("+which+")",
					fmt.Sprintf("reader of container %s (open #%d) was still open when evaluation returned and was closed afterwards by a goroutine the evaluation did not wait for; evaluation outcome: %s %s", s.ID, s.OpenIdx, oo.ErrClass(), clip(oo.ErrText, 120)))
			}
			if s.Closes < 1 {
				return viol("C14(iii:reader-not-closed)", "every opened log reader closed when evaluation returns ("+which+")",
					fmt.Sprintf("reader of container %s (open #%d) was never closed; evaluation outcome: %s %s; %d readers opened", s.ID, s.OpenIdx, oo.ErrClass(), clip(oo.ErrText, 120), len(oo.Streams)))
			}
		}
		return nil
	}
	// layouts of the streams this run opened, for the twin
	layouts := func(id string, open int) (Layout, bool) {
		for _, oc := range o.Opens {
			if oc.ID == id && oc.OpenIdx == open {
				c := p.World.Find(id)
				if c == nil {
					return Layout{}, false
				}
				l, err := BuildStream(c, oc.Opts, nil)
				return l, err == nil
			}
		}
		return Layout{}, false
	}
	switch {
	case p.Tags["either_way"] == "1":
		// acceptance is not judged; accounting below is
		if st != nil {
			st.Probe("acceptance_not_judged")
		}
	case o.Failed:
		// An error needs a reason: a failure that was delivered to the code, or an invalid query.
		if len(observed) == 0 && !expectErr {
			if len(p.Faults) == 0 {
				return viol("C14(iv:twin-succeeds)", "the fault-free run succeeds", clip(o.ErrText, 300))
			}
			return viol("C14(ii:no-spurious-error)", "nil error (no failure reached the code)", clip(o.ErrText, 300))
		}
	case expectErr:
		return viol("C14(invalid-query-fails)", "an error for the invalid or unsupported query", "nil error, "+o.Result.Summary())
	case len(p.Faults) > 0:
		// Evaluation succeeded although faults were injected. That is fine exactly
		// if the answer is the fault-free answer: a failure may go unreported only
		// if nothing it could have carried is missing (the code may have read
		// ahead into a failure it never needed; it may not drop data silently).
		tw := c14Twin(p, true, layouts)
		o2 := Exec(t, tw, 0, ExecOpts{})
		if st != nil {
			st.NoteOutcome(o2)
			st.ProbeIf(len(observed) > 0, "success_although_failure_delivered_checked_against_twin")
		}
		if o2.Bad() || o2.Failed {
			return viol("C14(iv:twin-succeeds)", "the fault-free twin succeeds", o2.ErrClass()+" "+clip(o2.ErrText+o2.Panic, 300))
		}
		// If one container had two requests in flight at the same time (operands
		// opened concurrently), the daemon cannot tell them apart and "the n-th
		// request of this container" is not a stable notion: no comparison then.
		ambiguous := false
		seenInBatch := map[string]bool{}
		for _, oc := range o.Opens {
			k := fmt.Sprint(oc.Batch, "/", oc.ID)
			if seenInBatch[k] {
				ambiguous = true
			}
			seenInBatch[k] = true
		}
		if st != nil {
			st.ProbeIf(ambiguous, "same_container_requested_twice_concurrently")
		}
		if a, b := o.Result.Render()+o.Stdout, o2.Result.Render()+o2.Stdout; a != b && p.Tags["undetermined"] != "1" && !ambiguous {
			if len(observed) > 0 {
				return viol("C14(i:error-surfaces)", fmt.Sprintf("an error (the code was told about: %v), or at least the complete answer: %s", observed, clip(b, 300)),
					"nil error and a truncated answer: "+clip(a, 300))
			}
			return viol("C14(ii:result-equals-twin)", "the fault-free twin's result: "+clip(b, 400), clip(a, 400))
		}
		if p.Tags["undetermined"] == "1" {
			// nothing to compare the answer with: fall back to the literal reading, except
			// for failures the code answered by asking again (a retried open, a reconnect)
			if un := c14Unanswered(o); len(un) > 0 {
				return viol("C14(i:error-surfaces)", fmt.Sprintf("an error (the code was told about: %v)", un), "nil error, "+o.Result.Summary())
			}
		}
		if v := closeViol(o2, "fault-free twin"); v != nil {
			return v
		}
	}
	if v := closeViol(o, "this run"); v != nil {
		return v
	}
	// (v) once faults stop, the same long-lived Engine answers again, completely. A
	// failed, cancelled or cut-short evaluation leaves nothing behind that makes a later
	// one fail, lose data or leak a reader. Sampled: it costs two more executions.
	if p.Harness == "engine" && !expectErr && p.Tags["either_way"] != "1" && p.Tags["undetermined"] != "1" &&
		!o.GoroutineLeak && o.LateReleases == 0 &&
		(p.Tags["after"] == "1" || p.Tags["after"] == "" && (p.Run+uint64(len(p.Faults)))%4 == 0) {
		// (a plan that showed a clause (v) violation keeps the clause while it is minimised and replayed)
		sticky := func(v *Violation) *Violation {
			if p.Tags == nil {
				p.Tags = map[string]string{}
			}
			p.Tags["after"] = "1"
			return v
		}
		ref := o
		if len(p.Faults) > 0 || o.Failed {
			ref = Exec(t, c14Twin(p, false, nil), 0, ExecOpts{})
			checkHarnessLimit(ref)
			if st != nil {
				st.NoteOutcome(ref)
			}
		}
		if !ref.Bad() && !ref.Failed && ref.Result != nil {
			ap := *p
			ap.Violation = nil
			v0 := Variant{}
			if len(p.Variants) > 0 {
				v0 = p.Variants[0]
			}
			v0.After = 1 + int(p.Run/4%2)
			ap.Variants = []Variant{v0}
			o3 := Exec(t, &ap, 0, ExecOpts{})
			checkHarnessLimit(o3)
			if st != nil {
				st.NoteOutcome(o3)
				st.ProbeIf(len(o3.After) > 0, "second_evaluation_on_the_same_engine_after_faults_stopped")
				st.ProbeIf(len(o3.After) > 0 && o3.Failed, "second_evaluation_after_a_failed_one")
				st.ProbeIf(len(o3.After) > 0 && o3.CtxCancelled, "second_evaluation_after_a_cancelled_one")
			}
			if o3.Panic != "" {
				return viol("C14(panic)", "an error, not a panic (evaluation repeated on the same Engine after faults stopped)", clip(o3.Panic, 800))
			}
			if o3.Hang {
				return viol("C14(hang)", "evaluation returns (repeated on the same Engine after faults stopped)", "never returned")
			}
			want := ref.Result.Render()
			for i, ae := range o3.After {
				if ae.Failed {
					return sticky(viol("C14(v:after-faults-stop)", "once faults have stopped, the same Engine answers the query again (first evaluation: "+o3.ErrClass()+")",
						fmt.Sprintf("evaluation #%d after the faulted one fails although the daemon answers faithfully: %s", i+1, clip(ae.ErrText, 300))))
				}
				if ae.Render != want {
					return sticky(viol("C14(v:after-faults-stop)", "once faults have stopped, the same Engine gives the complete answer: "+clip(want, 400),
						fmt.Sprintf("evaluation #%d after the faulted one (which ended as: %s): %s", i+1, o3.ErrClass(), clip(ae.Render, 400))))
				}
			}
			if v := closeViol(o3, "a faulted evaluation followed by fault-free ones on the same Engine"); v != nil {
				return sticky(v)
			}
		}
	}
	return nil
}

// ShrinkCandidates: simpler templates with the same selections.
func (propC14) ShrinkCandidates(p *Plan) []*Plan {
	cur := p.Tags["template"]
	if cur == "" {
		return nil
	}
	ct := c14TemplateByName(cur)
	var out []*Plan
	for _, name := range []string{"log", "count", "sum_by", "binop"} {
		nt := c14TemplateByName(name)
		if name == cur || nt.twoSel && !ct.twoSel || nt.expectErr != ct.expectErr {
			continue
		}
		if p.Tags["selA"] == "" {
			continue
		}
		c := p.Clone()
		c.Query = nt.build(p.Tags["selA"], p.Tags["selB"], p.Tags["range"])
		if c.CLI != nil && len(c.CLI.Argv) > 0 {
			c.CLI.Argv[len(c.CLI.Argv)-1] = c.Query
		}
		c.Tags["template"] = name
		if !nt.metric && ct.metric {
			continue
		}
		out = append(out, c)
	}
	return out
}
