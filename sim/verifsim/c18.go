package verifsim

import (
	"fmt"
	"os"
	"strings"
	"testing"
	"time"
)

// C18 — same query, same logs, same answer.
type propC18 struct{}

func init() { register(propC18{}) }

func (propC18) ID() string { return "C18" }

type c18Template struct {
	name   string
	metric bool
	twoSel bool
	build  func(a, b, rng string) string
}

func logT(name, stages string) c18Template {
	return c18Template{name: name, build: func(a, _, _ string) string { return a + stages }}
}

func metT(name, pre, post string) c18Template {
	return c18Template{name: name, metric: true, build: func(a, _, r string) string { return pre + a + "[" + r + "]" + post }}
}

var c18Templates = []c18Template{
	logT("plain", ""),
	logT("contains", ` |= "r1"`),
	logT("not_contains", ` != "r2"`),
	logT("regex", ` |~ "r[0-3]"`),
	logT("not_regex", ` !~ "c0"`),
	logT("json", ` | json`),
	logT("logfmt", ` | logfmt`),
	logT("regexp", " | regexp `(?P<tok>c\\d+r\\d+)`"),
	logT("pattern", ` | pattern "<first> <rest>"`),
	logT("logfmt_filter_num", ` | logfmt | k > 2`),
	logT("logfmt_filter_str", ` | logfmt | level = "info"`),
	logT("label_filter_re", ` | container =~ "w.*|a.*"`),
	logT("label_filter_or", ` | logfmt | level = "error" or k <= 1`),
	logT("label_format_copy", ` | label_format origin=container`),
	logT("label_format_tpl", ` | label_format dst="{{ .container }}-x"`),
	logT("line_format", ` | line_format "{{ .container }}: {{ __line__ }}"`),
	logT("drop", ` | drop msg`),
	logT("drop_many", ` | drop container_id, msg, container_created`),
	logT("keep", ` | keep container`),
	logT("keep_many", ` | keep container, msg`),
	logT("distinct_container", ` | distinct container`),
	logT("distinct_level", ` | logfmt | distinct level`),
	logT("json_keep", ` | json | keep level, container`),
	logT("decolorize", ` | decolorize`),
	// two queries that differ only by white space inside a string literal
	logT("hello_one_space", ` |= "hello world"`),
	logT("hello_two_spaces", ` |= "hello  world"`),
	logT("tab_in_literal", " |= \"k=1\ttok\""),
	logT("space_in_literal", ` |= "k=1 tok"`),
	// a template function with a regex that differs from plan to plan (see Gen)
	logT("label_format_app", ` | label_format app="{{ .container }}"`),
	logT("label_format_ap", ` | label_format ap="p{{ .container }}"`),
	logT("line_format_plain", ` | line_format "{{ .container }}"`),
	logT("label_format_lin", ` | label_format lin="e{{ .container }}"`),
	logT("regex_replace", ` | line_format "{{ regexReplaceAll \"c[0-9]+(q@)?\" __line__ \"N\" }}"`),
	metT("count", "count_over_time(", ")"),
	metT("bytes", "bytes_over_time(", ")"),
	metT("count_filter", "count_over_time(", ")"),
	metT("sum_by", "sum by (container) (count_over_time(", "))"),
	metT("sum_by2", "sum by (container_image, tier) (count_over_time(", "))"),
	metT("sum_without", "sum without (msg, container_id) (count_over_time(", "))"),
	metT("min_by", "min by (container) (bytes_over_time(", "))"),
	metT("max_without", "max without (msg) (count_over_time(", "))"),
	metT("count_by", "count by (container_image) (count_over_time(", "))"),
	// grouping by labels whose names and values are prefixes and joins of one another (gen.go, "prefix")
	metT("sum_by_ab", "sum by (a, b) (count_over_time(", "))"),
	metT("sum_by_prefixes", "sum by (a, ab, abc, b, tier) (count_over_time(", "))"),
	metT("count_by_xy", "count by (x, y) (count_over_time(", "))"),
	metT("sum_without_ids", "sum without (msg, container, container_id, container_name, container_image, container_image_id, container_command, container_created, container_state, container_status) (count_over_time(", "))"),
	metT("vec_lit", "count_over_time(", ") * 3"),
	{name: "sum_unwrap", metric: true, build: func(a, _, r string) string {
		return "sum by (container) (sum_over_time(" + a + " | unwrap weight [" + r + "]))"
	}},
	{name: "max_unwrap_image", metric: true, build: func(a, _, r string) string {
		return "max_over_time(" + a + " | unwrap weight [" + r + "]) by (container_image)"
	}},
	{name: "first_unwrap_image", metric: true, build: func(a, _, r string) string {
		return "first_over_time(" + a + " | unwrap weight [" + r + "]) by (container_image)"
	}},
	{name: "last_unwrap_image", metric: true, build: func(a, _, r string) string {
		return "last_over_time(" + a + " | unwrap weight [" + r + "]) by (container_image)"
	}},
	{name: "logfmt_unwrap", metric: true, build: func(a, _, r string) string {
		return "sum by (container, level) (sum_over_time(" + a + " | logfmt | unwrap k [" + r + "]))"
	}},
	{name: "count_offset", metric: true, build: func(a, _, r string) string { return "count_over_time(" + a + "[" + r + "] offset 5s)" }},
	{name: "max_of_unwrap", metric: true, build: func(a, _, r string) string {
		return "max by (container_image) (max_over_time(" + a + " | logfmt | unwrap k [" + r + "]))"
	}},
	{name: "min_of_unwrap", metric: true, build: func(a, _, r string) string {
		return "min by (container) (min_over_time(" + a + " | logfmt | unwrap k [" + r + "]))"
	}},
	{name: "rate", metric: true, build: func(a, _, r string) string {
		return "sum by (container) (count_over_time(" + a + " |~ \"r[0-5]\" [" + r + "]))"
	}},
	metT("lit_vec", "100 - sum by (container) (count_over_time(", "))"),
	metT("cmp", "sum by (container) (count_over_time(", ")) > 1"),
	metT("cmp_bool", "sum by (container) (count_over_time(", ")) >= bool 2"),
	{name: "binop_add", metric: true, twoSel: true, build: func(a, b, r string) string {
		return "sum by (container) (count_over_time(" + a + "[" + r + "])) + sum by (container) (bytes_over_time(" + b + "[" + r + "]))"
	}},
	{name: "binop_and", metric: true, twoSel: true, build: func(a, b, r string) string {
		return "sum by (container) (count_over_time(" + a + "[" + r + "])) and sum by (container) (count_over_time(" + b + "[" + r + "]))"
	}},
	{name: "binop_or", metric: true, twoSel: true, build: func(a, b, r string) string {
		return "sum by (container) (count_over_time(" + a + "[" + r + "])) or sum by (container) (count_over_time(" + b + "[" + r + "]))"
	}},
	{name: "binop_unless", metric: true, twoSel: true, build: func(a, b, r string) string {
		return "sum by (container) (count_over_time(" + a + "[" + r + "])) unless sum by (container) (count_over_time(" + b + "[" + r + "]))"
	}},
	{name: "binop_cmp", metric: true, twoSel: true, build: func(a, b, r string) string {
		return "sum by (container) (count_over_time(" + a + "[" + r + "])) > bool sum by (container) (count_over_time(" + b + "[" + r + "]))"
	}},
}

func c18TemplateByName(name string) *c18Template {
	for i := range c18Templates {
		if c18Templates[i].name == name {
			return &c18Templates[i]
		}
	}
	panic("verifsim: unknown C18 template " + name)
}

// raceMode reports whether this process runs the race-detector phase.
func raceMode() bool { return os.Getenv("VERIF_RACE") == "1" }

func (propC18) Gen(r *Rng, run uint64, tier string) *Plan {
	p := &Plan{Harness: "engine", Tags: map[string]string{}, Config: "faultfree"}
	step := []int64{5, 10, 20}[r.Intn(3)] * sec
	nsteps := int64(1 + r.Intn(5))
	rng := []int64{10, 20, 60}[r.Intn(3)] * sec
	start := BaseNs
	end := start + nsteps*step
	cli := !raceMode() && r.Bool(0.25)
	spec := WorldSpec{NMin: 1, NMax: 6, RecMin: 0, RecMax: 10, Lo: start - rng + 1, Hi: end - 1, Grid: sec / 2, TieProb: 0.5,
		Msg: "structured", AllNamed: true, NoHuge: true, OffSecond: true, Labels: "prefix"}
	if r.Bool(0.5) {
		spec.NMin = 2
	}
	if tier == "thorough" && r.Bool(0.2) {
		spec.NMax = 8
	}
	switch x := r.Intn(100); {
	case x < 5:
		spec.NMin, spec.NMax, spec.RecMax = 8, 24, 5
	case x < 6:
		spec.NMin, spec.NMax, spec.RecMax = 30, 70, 2
	case x < 12:
		spec.RecMax = 120
		if r.Bool(0.5) {
			// several hundred series in one step of an unwrap query
			spec.NMin, spec.RecMin, spec.Msg = 3, 90, "logfmtk"
			p.Tags["many_series"] = "1"
		}
	}
	if r.Bool(0.25) && p.Tags["many_series"] == "" {
		spec.Msg = "token"
	}
	if r.Bool(0.2) && p.Tags["many_series"] == "" {
		// Repeated lines (one stream holds several entries) ...
		spec.Msg = "const"
	}
	if r.Bool(0.2) {
		// ... and logs that are not time ordered.
		spec.Unsorted = true
		p.Tags["unsorted"] = "1"
	}
	p.World = GenWorld(r.Sub("world"), spec)
	for i := range p.World.Containers {
		if r.Bool(0.6) {
			if p.World.Containers[i].Labels == nil {
				p.World.Containers[i].Labels = map[string]string{}
			}
			p.World.Containers[i].Labels["weight"] = fmt.Sprint(1 + r.Intn(9))
		}
	}
	if cli {
		// Rendered output is only determined for distinct timestamps.
		seen := map[int64]bool{}
		for ci := range p.World.Containers {
			log := p.World.Containers[ci].Log
			for ri := range log {
				for seen[log[ri].TS] || log[ri].TS%sec == 0 {
					log[ri].TS++
				}
				seen[log[ri].TS] = true
			}
			// keep per-container order sorted after the nudges
			for ri := 1; ri < len(log) && !spec.Unsorted; ri++ {
				for j := ri; j > 0 && log[j].TS < log[j-1].TS; j-- {
					log[j], log[j-1] = log[j-1], log[j]
				}
			}
		}
	}
	var tpl *c18Template
	for {
		tpl = &c18Templates[r.Intn(len(c18Templates))]
		if !(cli && tpl.metric) {
			break
		}
	}
	if p.Tags["many_series"] == "1" && !cli && r.Bool(0.6) {
		tpl = c18TemplateByName([]string{"max_of_unwrap", "min_of_unwrap", "logfmt_unwrap", "sum_unwrap"}[r.Intn(4)])
	}
	selA, contA := genSelection(r.Sub("selA"), &p.World)
	selB, contB := "", []*Container(nil)
	if tpl.twoSel {
		selB, contB = genSelection(r.Sub("selB"), &p.World)
	}
	if tpl.name == "count_filter" {
		selA += ` |= "r"`
	}
	p.Query = tpl.build(selA, selB, durText(rng))
	if tpl.name == "regex_replace" {
		// hundreds of distinct patterns pass through the template functions of one process
		p.Query = strings.ReplaceAll(p.Query, "@", fmt.Sprint(run%400))
	}
	p.Tags["template"] = tpl.name
	p.Tags["selA"], p.Tags["selB"], p.Tags["range"] = selA, selB, durText(rng)
	p.Params = Params{Start: start, End: end, StepNs: step, Limit: -1}
	if tpl.metric {
		if r.Bool(0.25) {
			p.Params.Start, p.Params.End, p.Params.StepNs = end, end, 0
			p.Tags["instant"] = "1"
		}
	} else {
		p.Params.Start = start - rng
		if r.Bool(0.5) {
			p.Params.Limit = 1 + r.Intn(6)
		}
	}
	if cli {
		if r.Bool(0.3) {
			p.Tags["broken_pipe_first"] = "1"
		}
		p.Harness = "cli"
		argv := []string{"query", "--color=false"}
		argv = append(argv, fmt.Sprintf("--timestamp=%v", r.Bool(0.5)), fmt.Sprintf("--container=%v", r.Bool(0.5)))
		argv = append(argv, "--start="+time.Unix(0, p.Params.Start).UTC().Format(time.RFC3339Nano), fmt.Sprintf("--end=%d", p.Params.End))
		if p.Params.Limit > 0 {
			argv = append(argv, fmt.Sprintf("--limit=%d", p.Params.Limit))
		}
		argv = append(argv, p.Query)
		p.CLI = &CLI{Now: end + 3600*sec, Argv: argv}
	}
	sizes := []int{len(contA)}
	if tpl.twoSel {
		sizes = append(sizes, len(contB))
	}
	nvar := 4
	n := len(contA)
	exhaustive := false
	if tier == "thorough" && n >= 2 && n <= 5 && r.Bool(0.25) {
		nvar, exhaustive = factorial(n), true
	} else if n >= 2 && n <= 3 {
		nvar, exhaustive = factorial(n), true
		if nvar < 4 {
			nvar = 4
		}
	}
	vr := r.Sub("variants")
	for i := 0; i < nvar; i++ {
		leh := int64(-1)
		if exhaustive || i%2 == 0 {
			leh = int64(run) + int64(i)
		}
		v := genVariant(vr.SubN("v", uint64(i)), sizes, leh, i > 0, true)
		if raceMode() && i%2 == 1 {
			v.Mode = "parallel"
			v.GateReads = false // the runtime interleaves; the detector judges
		}
		p.Variants = append(p.Variants, v)
	}
	if exhaustive {
		p.Tags["exhaustive_orders"] = fmt.Sprint(n)
	}
	if wr := r.Sub("warmup"); !cli && !raceMode() && wr.Bool(0.3) {
		// "Repeating a query": in some of the repetitions the Engine and Querier are not
		// fresh - they have answered this query (or a sibling over the same selection)
		// once or twice before. Variant 0 stays the fresh-engine reference.
		for i := 1; i < len(p.Variants); i++ {
			if !wr.Bool(0.6) {
				continue
			}
			v := &p.Variants[i]
			v.Warmup = 1 + wr.Intn(2)
			own := len(v.Batches)
			if wr.Bool(0.3) {
				for {
					st := &c18Templates[wr.Intn(len(c18Templates))]
					if st.twoSel && !tpl.twoSel {
						continue
					}
					v.WarmupQuery = st.build(selA, selB, durText(rng))
					break
				}
			} else {
				// the seeded release orders apply to every evaluation of the query
				for k := 0; k < v.Warmup; k++ {
					v.Batches = append(v.Batches, v.Batches[:own]...)
				}
			}
		}
		p.Tags["warmup"] = "1"
	}
	pressureProb := 0.02
	switch tpl.name {
	case "regex_replace", "regexp", "regex", "not_regex", "label_filter_re", "line_format", "label_format_tpl", "pattern", "hello_one_space", "hello_two_spaces":
		// queries that go through things a process might cache by text
		pressureProb = 0.3
	}
	if !cli && !raceMode() && r.Bool(pressureProb) {
		// hundreds or thousands of other queries ran in this process first
		sizes := []int{140, 140, 300}
		if tier == "thorough" {
			sizes = []int{140, 300, 300, 1100, 4200}
		}
		p.Tags["cache_pressure"] = fmt.Sprint(sizes[r.Intn(len(sizes))])
	}
	if fr := r.Sub("openfaults"); !raceMode() && !tpl.twoSel && len(contA) >= 2 && p.Tags["cache_pressure"] == "" && fr.Bool(0.06) {
		// One or two requests for a container's log fail, with the daemon's typed errors
		// among them. Whether the query fails must not depend on which answer comes first.
		perm := fr.Perm(len(contA))
		for k := 0; k < 1+fr.Intn(2); k++ {
			p.Faults = append(p.Faults, Fault{Kind: FaultOpenError, Container: contA[perm[k]].ID, Open: -1,
				ErrKind: []string{"", "not_found", "not_implemented"}[fr.Intn(3)]})
		}
		p.Config = "open_faults"
	}
	if raceMode() && len(contA) > 0 && r.Bool(0.4) {
		// Race phase only: let the failure and cleanup paths run concurrently
		// with the other opens, so that the detector sees them too.
		fr := r.Sub("racefault")
		c := contA[fr.Intn(len(contA))]
		f := Fault{Container: c.ID, Open: -1}
		switch fr.Intn(3) {
		case 0:
			f.Kind = FaultOpenError
		case 1:
			f.Kind = FaultReadError
			f.Offset = fr.Intn(40)
		default:
			f.Kind = FaultOpenLatency
			f.DelayMs = 1 + fr.Intn(50)
		}
		p.Faults = []Fault{f}
		if f.Kind == FaultOpenError && len(contA) >= 3 && fr.Bool(0.6) {
			// several opens of one query fail at the same time
			for _, j := range fr.Perm(len(contA))[:2] {
				if contA[j].ID != c.ID {
					p.Faults = append(p.Faults, Fault{Kind: FaultOpenError, Container: contA[j].ID, Open: -1})
				}
			}
		}
		p.Config = "race_faults"
		p.Tags["race_fault"] = f.Kind
	}
	return p
}

func (propC18) Expand(t *testing.T, p *Plan) []*Plan { return []*Plan{p} }

// HistorySample picks the plans whose answer is also asked of a fresh process.
func (propC18) HistorySample(p *Plan, i int64) bool {
	if p.Harness != "engine" || raceMode() {
		return false
	}
	return i%23 == 11 || p.Tags["cache_pressure"] != ""
}

// c18Pressure evaluates n throw-away queries with pairwise distinct literals, regexes
// and templates over an empty inventory: whatever the process caches by text is
// driven past its capacity before the plan's own query runs.
func c18Pressure(t *testing.T, p *Plan, n int, st *Stats) {
	// one container with one line, so that per-line code (template functions, filters) runs
	tiny := World{Containers: []Container{{ID: "feedfacef00d", Names: []string{"/pressure"}, Image: "busybox", State: "running", Status: "Up",
		Log: []Record{{T: 1, TS: p.Params.End - 1, Msg: []byte("c0r0 level=info k=1 y z w x")}}}}}
	for i := 0; i < 5*n; i++ {
		k := fmt.Sprintf("%d_%d", p.Run%1000, i/5)
		var q string
		switch i % 5 {
		case 0:
			q = `{} | line_format "{{ regexReplaceAll \"y` + k + `\" __line__ \"N\" }}"`
		case 1:
			q = `{} |~ "x` + k + `"`
		case 2:
			q = `{container=~"z` + k + `.*|pressure"}`
		case 3:
			q = `{} | label_format q="{{ .container }}` + k + `"`
		default:
			q = `count_over_time({} |= "w` + k + `" [10s])`
		}
		ip := &Plan{Property: "C18", Harness: "engine", World: tiny, Query: q, Params: p.Params, Variants: []Variant{{FragMode: "whole"}}}
		o := Exec(t, ip, 0, ExecOpts{})
		if st != nil {
			st.Execs++
		}
		_ = o
	}
}

func (propC18) Check(t *testing.T, p *Plan, st *Stats) *Violation {
	viol := func(vi int, clause, exp, obs string) *Violation {
		return &Violation{Property: "C18", Clause: clause, Expected: exp, Observed: obs, Detail: fmt.Sprintf("variant %d, harness %s, query %s", vi, p.Harness, p.Query)}
	}
	if !parses(p.Query) {
		if st != nil {
			st.Skipped++
		}
		return nil
	}
	var first *Outcome
	var firstRender string
	pressure := 0
	if n := p.Tags["cache_pressure"]; n != "" {
		fmt.Sscan(n, &pressure)
		if p.Run%2 == 0 {
			// before the first evaluation: a polluted process against a fresh one
			c18Pressure(t, p, pressure, st)
			pressure = 0
		}
		if st != nil {
			st.Probe("evaluated_under_cache_pressure")
		}
	}
	if p.Harness == "cli" && p.Tags["broken_pipe_first"] == "1" && len(p.Variants) > 0 {
		// An earlier rendering in this process was cut short by a failing stdout:
		// nothing of it may show in the renderings that follow.
		pre := *p
		v0 := p.Variants[0]
		v0.StdoutFailAfter = 1 + int(p.Run%40)
		pre.Variants = []Variant{v0}
		o := Exec(t, &pre, 0, ExecOpts{})
		checkHarnessLimit(o)
		if st != nil {
			st.NoteOutcome(o)
			st.ProbeIf(o.Failed, "rendering_cut_short_by_stdout_error")
		}
		if o.Panic != "" {
			return viol(0, "C18(panic)", "no panic", clip(o.Panic, 600))
		}
	}
	for vi := range p.Variants {
		o := Exec(t, p, vi, ExecOpts{})
		checkHarnessLimit(o)
		if st != nil {
			st.NoteOutcome(o)
			st.ProbeIf(p.Variants[vi].MapSeed != 0, "nonidentity_map_order")
			st.ProbeIf(p.Variants[vi].Mode == "parallel", "parallel_release_execution")
			st.ProbeIf(p.Variants[vi].Warmup > 0 && o.WarmupOpens > 0, "engine_reused_after_earlier_evaluations")
			st.ProbeIf(p.Variants[vi].Warmup > 0 && p.Variants[vi].WarmupQuery != "" && o.WarmupOpens > 0, "engine_reused_after_a_sibling_query")
			st.ProbeIf(p.Variants[vi].Mode == "parallel" && len(p.Faults) > 0, "parallel_release_with_fault_"+p.Tags["race_fault"])
		}
		if o.Panic != "" {
			return viol(vi, "C18(panic)", "no panic", clip(o.Panic, 600))
		}
		if o.Hang {
			return viol(vi, "C18(hang)", "evaluation returns", "never returned")
		}
		if p.Variants[vi].Mode == "parallel" {
			// The interleaving is the runtime's: only the race detector judges this execution.
			continue
		}
		render := o.Result.Render()
		if first == nil && pressure > 0 {
			// between the first evaluation and the repetitions: what was cached for
			// this query is evicted (or is supposed to be) before it runs again
			c18Pressure(t, p, pressure, st)
			pressure = 0
		}
		if first == nil {
			first, firstRender = o, render
			if st != nil {
				st.Probe("template_" + p.Tags["template"])
				st.ProbeIf(p.Harness == "cli", "cli_level")
				st.ProbeIf(p.Tags["unsorted"] == "1", "unsorted_source")
				st.ProbeIf(p.Tags["unsorted"] == "1" && p.Harness == "cli", "unsorted_source_cli")
				st.ProbeIf(p.Params.Limit > 0, "with_limit")
				st.ProbeIf(len(o.Opens) >= 2, "many_containers")
				st.ProbeIf(p.Tags["exhaustive_orders"] != "", "all_orders_walked")
				if len(o.Opens) >= 2 {
					st.Signature(fmt.Sprintf("%s|%s|n=%d|lim=%d|inst=%s|%v", p.Harness, p.Tags["template"], len(o.Opens), p.Params.Limit, p.Tags["instant"], o.BatchSizes))
				}
			}
			continue
		}
		if st != nil && len(o.Opens) >= 2 {
			st.Signature(fmt.Sprintf("%s|%s|n=%d|%v|map=%v", p.Harness, p.Tags["template"], len(o.Opens), o.BatchPerms, p.Variants[vi].MapSeed != 0))
		}
		if o.ErrClass() != first.ErrClass() {
			return viol(vi, "C18(a:same-outcome)", "the same outcome as under release order "+fmt.Sprint(first.BatchPerms)+": "+first.ErrClass()+" "+clip(first.ErrText, 200),
				fmt.Sprintf("under release order %v%s: %s %s", o.BatchPerms, warmupNote(&p.Variants[vi]), o.ErrClass(), clip(o.ErrText, 200)))
		}
		if render != firstRender {
			return viol(vi, "C18(b:same-result)", fmt.Sprintf("the result obtained under release order %v, map seed %d: %s", first.BatchPerms, p.Variants[0].MapSeed, clip(firstRender, 500)),
				fmt.Sprintf("under release order %v, map seed %d%s: %s", o.BatchPerms, p.Variants[vi].MapSeed, warmupNote(&p.Variants[vi]), clip(render, 500)))
		}
		if p.Harness == "cli" && o.Stdout != first.Stdout {
			return viol(vi, "C18(c:same-output)", "byte-identical output: "+clip(first.Stdout, 400), clip(o.Stdout, 400))
		}
	}
	if p.Harness == "cli" && first != nil && !first.Failed && st != nil {
		st.ProbeIf(strings.Count(first.Stdout, "\n") >= 2, "cli_output_several_lines")
	}
	return nil
}

// ShrinkCandidates: plainer templates over the same selections.
// warmupNote says, for a violation text, that the engine of this variant was not fresh.
func warmupNote(v *Variant) string {
	if v.Warmup == 0 {
		return ""
	}
	q := "the same query"
	if v.WarmupQuery != "" {
		q = v.WarmupQuery
	}
	return fmt.Sprintf(", on an Engine that had evaluated %s %d time(s) before", q, v.Warmup)
}

func (propC18) ShrinkCandidates(p *Plan) []*Plan {
	cur := p.Tags["template"]
	if cur == "" || p.Tags["selA"] == "" {
		return nil
	}
	ct := c18TemplateByName(cur)
	var out []*Plan
	for _, name := range []string{"plain", "keep", "count", "sum_by", "binop_add"} {
		nt := c18TemplateByName(name)
		if name == cur || nt.metric != ct.metric || nt.twoSel && !ct.twoSel {
			continue
		}
		c := p.Clone()
		c.Query = nt.build(p.Tags["selA"], p.Tags["selB"], p.Tags["range"])
		c.Tags["template"] = name
		if c.CLI != nil && len(c.CLI.Argv) > 0 {
			c.CLI.Argv[len(c.CLI.Argv)-1] = c.Query
		}
		out = append(out, c)
	}
	return out
}
