// Package verifsim is the deterministic simulation harness for docker-logql.
// It is compiled into the repository's module through a build overlay (see
// /verif/check); it never exists inside /repo.
package verifsim

import "hash/fnv"

// Rng is a splitmix64 generator. Every random choice of a run derives from
// one root value; named sub-streams are independent of the number of draws
// made on their parent.
type Rng struct {
	root uint64
	s    uint64
}

func mix64(z uint64) uint64 {
	z += 0x9e3779b97f4a7c15
	z = (z ^ (z >> 30)) * 0xbf58476d1ce4e5b9
	z = (z ^ (z >> 27)) * 0x94d049bb133111eb
	return z ^ (z >> 31)
}

// NewRng creates a generator from seed.
func NewRng(seed uint64) *Rng { return &Rng{root: seed, s: seed} }

// Sub derives an independent named sub-stream from the root of r.
func (r *Rng) Sub(name string) *Rng {
	h := fnv.New64a()
	_, _ = h.Write([]byte(name))
	return NewRng(mix64(r.root ^ mix64(h.Sum64())))
}

// SubN derives an independent numbered sub-stream.
func (r *Rng) SubN(name string, n uint64) *Rng {
	h := fnv.New64a()
	_, _ = h.Write([]byte(name))
	return NewRng(mix64(mix64(r.root^mix64(h.Sum64())) + n*0x9e3779b97f4a7c15))
}

// Uint64 returns the next value.
func (r *Rng) Uint64() uint64 {
	r.s += 0x9e3779b97f4a7c15
	z := r.s
	z = (z ^ (z >> 30)) * 0xbf58476d1ce4e5b9
	z = (z ^ (z >> 27)) * 0x94d049bb133111eb
	return z ^ (z >> 31)
}

// Intn returns a value in [0, n). n must be > 0.
func (r *Rng) Intn(n int) int {
	if n <= 0 {
		panic("verifsim: Intn with n <= 0")
	}
	return int(r.Uint64() % uint64(n))
}

// Int63n returns a value in [0, n).
func (r *Rng) Int63n(n int64) int64 {
	if n <= 0 {
		panic("verifsim: Int63n with n <= 0")
	}
	return int64(r.Uint64() % uint64(n))
}

// Range returns a value in [lo, hi].
func (r *Rng) Range(lo, hi int) int { return lo + r.Intn(hi-lo+1) }

// Float returns a value in [0, 1).
func (r *Rng) Float() float64 { return float64(r.Uint64()>>11) / (1 << 53) }

// Bool returns true with probability p.
func (r *Rng) Bool(p float64) bool { return r.Float() < p }

// Perm returns a random permutation of [0, n).
func (r *Rng) Perm(n int) []int {
	p := make([]int, n)
	for i := range p {
		p[i] = i
	}
	for i := n - 1; i > 0; i-- {
		j := r.Intn(i + 1)
		p[i], p[j] = p[j], p[i]
	}
	return p
}

// Pick returns a random element of xs.
func Pick[T any](r *Rng, xs []T) T { return xs[r.Intn(len(xs))] }

// LehmerPerm returns the permutation of [0,n) with the given Lehmer index
// (taken modulo n!).
func LehmerPerm(n int, index uint64) []int {
	if n <= 0 {
		return nil
	}
	fact := uint64(1)
	for i := 2; i <= n && i <= 20; i++ {
		fact *= uint64(i)
	}
	if n <= 20 {
		index %= fact
	}
	digits := make([]int, n)
	for i := 1; i <= n; i++ {
		digits[n-i] = int(index % uint64(i))
		index /= uint64(i)
	}
	avail := make([]int, n)
	for i := range avail {
		avail[i] = i
	}
	out := make([]int, 0, n)
	for _, d := range digits {
		out = append(out, avail[d])
		avail = append(avail[:d], avail[d+1:]...)
	}
	return out
}
