package verifsim

import (
	"fmt"
	"sort"
	"testing"
	"time"
)

// C03 — Docker log streams are decoded without loss or alteration.
type propC03 struct{}

func init() { register(propC03{}) }

func (propC03) ID() string { return "C03" }

var hi2200 = time.Date(2199, 12, 31, 23, 59, 59, 999_999_999, time.UTC).UnixNano()

func (propC03) Gen(r *Rng, run uint64, tier string) *Plan {
	p := &Plan{Harness: "parselog", Tags: map[string]string{}}
	if r.Bool(0.4) {
		p.Harness = "engine"
	}
	spec := WorldSpec{NMin: 1, NMax: 1, RecMin: 0, RecMax: 40, Msg: "raw", AllNamed: true}
	switch x := r.Intn(100); {
	case x < 50:
		spec.Lo, spec.Hi, spec.Grid, spec.TieProb = BaseNs, BaseNs+600*sec, sec, 0.3
	case x < 75:
		spec.Lo, spec.Hi = 0, hi2200
	default:
		spec.Lo, spec.Hi, spec.Grid, spec.TieProb = BaseNs, BaseNs+20*sec, sec/1000, 0.5
	}
	if r.Bool(0.2) {
		spec.Unsorted = true
	}
	if r.Bool(0.5) {
		spec.RecMax = 6
	}
	if tier == "quick" && r.Bool(0.7) {
		spec.NoHuge = true
	}
	if r.Bool(0.3) {
		spec.Msg = "rich"
	}
	p.World = GenWorld(r.Sub("world"), spec)
	if r.Bool(0.03) && len(p.World.Containers[0].Log) > 0 {
		// one very large frame (beyond any plausible buffer size)
		log := p.World.Containers[0].Log
		n := []int{64*1024 - 31, 64 * 1024, 64*1024 + 1, 128*1024 + 7, 300 * 1024, 1024*1024 + 3, 4*1024*1024 + 1, 5 * 1024 * 1024}[r.Intn(8)]
		if r.Bool(0.08) {
			// beyond any "plausible" frame size a decoder might assume
			n = []int{16*1024*1024 + 1, 17 * 1024 * 1024, 33 * 1024 * 1024}[r.Intn(3)]
		}
		b := make([]byte, n)
		for i := range b {
			b[i] = byte('A' + i%23)
		}
		log[r.Intn(len(log))].Msg = b
	}
	if r.Bool(0.04) && len(p.World.Containers[0].Log) > 0 {
		// Adjacent records whose local wall-clock second is the same while their
		// UTC offsets differ (a zone change): the instants are an hour apart.
		log := p.World.Containers[0].Log
		i := r.Intn(len(log))
		a := log[i]
		a.Off = []int{7200, 3600, -4 * 3600}[r.Intn(3)]
		b := Record{T: a.T, Msg: append([]byte("after zone change "), a.Msg...), Off: a.Off - 3600}
		b.TS = a.TS + 3600*sec + r.Int63n(sec-a.TS%sec)
		if b.TS <= hi2200 {
			log[i] = a
			log = append(log[:i+1], append([]Record{b}, log[i+1:]...)...)
			p.World.Containers[0].Log = log
			p.Tags["zone_change"] = "1"
		}
	}
	if p.Harness == "engine" {
		p.Query = "{}"
		p.Params = Params{Start: 0, End: hi2200 + 10*sec - (hi2200+10*sec)%sec, StepNs: sec, Limit: -1}
	} else {
		p.Params.Repoll = []int{0, 0, 1, 2}[r.Intn(4)]
	}
	p.Variants = []Variant{genVariant(r.Sub("variant"), nil, -1, false, false)}
	if r.Sub("config").Bool(0.4) {
		p.Config = "faultfree"
		return p
	}
	p.Config = "faults"
	c := &p.World.Containers[0]
	l, _ := BuildStream(c, stdOpts(), nil)
	switch {
	case len(l.Data) == 0:
		p.Config = "faultfree"
	case len(l.Data) < map[string]int{"quick": 600, "thorough": 3000}[tier] && r.Bool(0.6):
		p.Tags["sweep"] = []string{"cut", "read_error"}[r.Intn(2)]
	case len(l.Ends) > 0 && r.Bool(0.25):
		p.Tags["sweep"] = "frame"
	default:
		p.Tags["sweep"] = "strata"
	}
	return p
}

var frameKindsAll = []string{FrameSysProse, FrameSysLine, FrameBadTimestamp, FrameNoSpace, FrameEmptyPayload, FrameBadDate}

func (propC03) Expand(t *testing.T, p *Plan) []*Plan {
	sweep := p.Tags["sweep"]
	if sweep == "" {
		return []*Plan{p}
	}
	c := &p.World.Containers[0]
	l, _ := BuildStream(c, stdOpts(), nil)
	mk := func(f Fault, pos string) *Plan {
		cp := *p
		cp.Faults = []Fault{f}
		cp.Tags = map[string]string{"pos": pos, "from_sweep": sweep}
		return &cp
	}
	var out []*Plan
	switch sweep {
	case "cut", "read_error":
		for off := 0; off <= len(l.Data); off++ {
			if sweep == "cut" && off == len(l.Data) {
				continue
			}
			class, _ := l.Classify(off)
			ek := ""
			if sweep == "cut" && p.Run%2 == 1 {
				ek = "unexpected"
			}
			if sweep == "read_error" {
				ek = []string{"", "deadline", "closed", "with_data", "wraps_unexpected_eof", "wraps_eof", "reset"}[p.Run%7]
			}
			out = append(out, mk(Fault{Kind: sweep, Container: c.ID, Open: -1, Offset: off, ErrKind: ek}, class))
		}
	case "frame":
		for fi := range l.Ends {
			kind := frameKindsAll[(fi+int(p.Run))%len(frameKindsAll)]
			out = append(out, mk(Fault{Kind: FaultFrame, Container: c.ID, Open: -1, Frame: fi, FrameKind: kind}, "frame:"+kind))
		}
	case "strata":
		frames := []int{0, len(l.Ends) / 2, len(l.Ends) - 1}
		seen := map[int]bool{}
		for _, fi := range frames {
			if fi < 0 || fi >= len(l.Ends) || seen[fi] {
				continue
			}
			seen[fi] = true
			start, end := l.FrameStart(fi), l.Ends[fi]
			offs := []int{start, start + 1, start + 7, start + 8, start + 9, (start + 8 + end) / 2, end - 1}
			// inside a large body: the boundaries of common chunk sizes
			for _, chunk := range []int{512, 4096, 8192, 16384, 32768, 65536} {
				for k := 1; k <= 3; k++ {
					offs = append(offs, start+8+k*chunk, start+k*chunk)
				}
			}
			for _, off := range offs {
				if off < start || off >= end {
					continue
				}
				class, _ := l.Classify(off)
				kind, ek := FaultCut, ""
				if (off+fi)%3 == 0 {
					kind = FaultReadError
				} else if (off+int(p.Run))%2 == 0 {
					ek = "unexpected"
				}
				out = append(out, mk(Fault{Kind: kind, Container: c.ID, Open: -1, Offset: off, ErrKind: ek}, class))
			}
			fk := frameKindsAll[(fi+int(p.Run))%len(frameKindsAll)]
			out = append(out, mk(Fault{Kind: FaultFrame, Container: c.ID, Open: -1, Frame: fi, FrameKind: fk}, "frame:"+fk))
		}
	}
	if len(out) == 0 {
		cp := *p
		cp.Tags = map[string]string{}
		return []*Plan{&cp}
	}
	return out
}

func (propC03) Check(t *testing.T, p *Plan, st *Stats) *Violation {
	if len(p.World.Containers) != 1 {
		// Shrinking may not remove the only container.
		return nil
	}
	c := &p.World.Containers[0]
	l, err := BuildStream(c, stdOpts(), planFrameKinds(p.Faults, c.ID, 0))
	if err != nil {
		panic(err)
	}
	si := ComputeStop(l, p.Faults, c.ID, 0)
	want := make([]MergedRec, 0, si.Whole)
	for i := 0; i < si.Whole; i++ {
		r := c.Log[l.Recs[i]]
		want = append(want, MergedRec{TS: uint64(r.TS), ObservedTS: uint64(r.TS), Body: string(r.Msg), ContainerID: c.ID})
	}
	wantErr := si.WantErr()

	o := Exec(t, p, 0, ExecOpts{})
	checkHarnessLimit(o)
	if st != nil {
		st.NoteOutcome(o)
		nontrivial := len(c.Log) > 0
		if nontrivial {
			fk, pos := "none", p.Tags["pos"]
			if len(p.Faults) > 0 {
				fk = p.Faults[0].Kind
			}
			st.Signature(fmt.Sprintf("%s|n=%d|%s|%s|whole=%d|%s|repoll=%d|bytes=%d", p.Harness, len(c.Log), fk, pos, si.Whole, p.Variants[0].FragMode, p.Params.Repoll, len(l.Data)))
		}
		if si.Kind == FaultCut {
			st.Probe("cut_" + si.Class)
		}
		if si.Kind == FaultReadError {
			st.Probe("read_error_" + si.Class)
		}
		if si.BadFrame >= 0 {
			st.Probe("bad_frame")
		}
		for _, r := range c.Log {
			if len(r.Msg) > 16*1024 {
				st.Probe("message_over_16KiB")
				break
			}
		}
		for _, r := range c.Log {
			if len(r.Msg) == 0 {
				st.Probe("empty_message")
				break
			}
		}
		st.ProbeIf(len(c.Log) == 0, "empty_stream")
		st.ProbeIf(c.TSStyle == "trimmed", "trimmed_timestamps")
		st.ProbeIf(c.TSStyle == "offsets" || p.Tags["zone_change"] == "1", "numeric_utc_offsets")
		if wantErr {
			st.Observed[faultKindOf(p)]++
		}
	}
	viol := func(clause, exp, obs string) *Violation {
		return &Violation{Property: "C03", Clause: clause, Expected: exp, Observed: obs,
			Detail: fmt.Sprintf("harness=%s stream=%d bytes/%d frames, stop=%d kind=%q class=%s whole=%d badframe=%d", p.Harness, len(l.Data), len(l.Ends), si.Stop, si.Kind, si.Class, si.Whole, si.BadFrame)}
	}
	if o.Panic != "" {
		return viol("C03(panic)", "no panic", clip(o.Panic, 600))
	}
	if o.Hang {
		return viol("C03(hang)", "decoding terminates", "evaluation never returned")
	}
	if wantErr && !o.Failed {
		return viol("C03(error-reported)", "an error", fmt.Sprintf("nil error, %d records / %s", len(o.Records), o.Result.Summary()))
	}
	if !wantErr && o.Failed {
		return viol("C03(clean-end)", "nil error", "error: "+clip(o.ErrText, 300))
	}
	switch p.Harness {
	case "parselog":
		if len(o.Records) != len(want) {
			return viol("C03(records)", fmt.Sprintf("%d records", len(want)), fmt.Sprintf("%d records (of which %d after Next had returned false)", len(o.Records), o.RepollRecords))
		}
		for i := range want {
			if o.Records[i] != want[i] {
				return viol("C03(records)", fmt.Sprintf("record %d = %s", i, showRec(want[i])), showRec(o.Records[i]))
			}
		}
	case "engine":
		if o.Failed {
			return nil
		}
		if len(o.Opens) != 1 {
			return viol("C03(engine-open)", "one ContainerLogs call", fmt.Sprintf("%d calls", len(o.Opens)))
		}
		if o.Result == nil || o.Result.Type != "streams" {
			return viol("C03(records)", "a streams result", o.Result.Summary())
		}
		var got, exp []CEntry
		for _, s := range o.Result.Streams {
			got = append(got, s.Entries...)
		}
		for _, w := range want {
			exp = append(exp, CEntry{T: w.TS, V: w.Body})
		}
		less := func(es []CEntry) func(i, j int) bool {
			return func(i, j int) bool {
				if es[i].T != es[j].T {
					return es[i].T < es[j].T
				}
				return es[i].V < es[j].V
			}
		}
		sort.SliceStable(got, less(got))
		sort.SliceStable(exp, less(exp))
		if len(got) != len(exp) {
			return viol("C03(records)", fmt.Sprintf("%d entries", len(exp)), fmt.Sprintf("%d entries", len(got)))
		}
		for i := range exp {
			if got[i] != exp[i] {
				return viol("C03(records)", fmt.Sprintf("entry %d = (%d, %q)", i, exp[i].T, clip(exp[i].V, 80)), fmt.Sprintf("(%d, %q)", got[i].T, clip(got[i].V, 80)))
			}
		}
	}
	return nil
}

func showRec(r MergedRec) string {
	return fmt.Sprintf("{ts=%d observed=%d body=%q container_id=%s}", r.TS, r.ObservedTS, clip(r.Body, 80), r.ContainerID)
}

func faultKindOf(p *Plan) string {
	if len(p.Faults) == 0 {
		return "none"
	}
	f := p.Faults[0]
	if f.Kind == FaultFrame {
		return "frame:" + f.FrameKind
	}
	return f.Kind
}

// planFrameKinds returns the frame corruptions that apply to stream (id, openIdx).
func planFrameKinds(faults []Fault, id string, openIdx int) map[int]string {
	m := map[int]string{}
	for _, f := range faults {
		if f.Kind == FaultFrame && f.Container == id && (f.Open < 0 || f.Open == openIdx) {
			m[f.Frame] = f.FrameKind
		}
	}
	return m
}
