package verifsim

import (
	"regexp"
	"strings"
)

// Matcher is one selector matcher of the reference selection model.
type Matcher struct {
	Label string `json:"label"`
	Op    string `json:"op"` // = != =~ !~
	Value string `json:"value"`
	// Raw: spell the value as a backquoted raw string where possible.
	Raw bool `json:"raw,omitempty"`
}

// String renders the matcher in LogQL.
func (m Matcher) String() string {
	if m.Raw && !strings.ContainsAny(m.Value, "`") {
		// a raw string: every byte stands for itself (a carriage return too)
		return m.Label + m.Op + "`" + m.Value + "`"
	}
	return m.Label + m.Op + quoteLogQL(m.Value)
}

// quoteLogQL quotes s as a LogQL double-quoted string.
func quoteLogQL(s string) string {
	out := make([]byte, 0, len(s)+2)
	out = append(out, '"')
	for i := 0; i < len(s); i++ {
		switch c := s[i]; c {
		case '"', '\\':
			out = append(out, '\\', c)
		case '\n':
			out = append(out, '\\', 'n')
		case '\t':
			out = append(out, '\\', 't')
		default:
			out = append(out, c)
		}
	}
	return string(append(out, '"'))
}

// SelectorString renders a selector.
func SelectorString(ms []Matcher) string {
	s := "{"
	for i, m := range ms {
		if i > 0 {
			s += ", "
		}
		s += m.String()
	}
	return s + "}"
}

// RefMatch is the reference semantics of one matcher against a label map:
// = and != are exact, =~ and !~ are fully anchored, a missing label is "".
func RefMatch(m Matcher, labels map[string]string) bool {
	v := labels[m.Label] // missing => ""
	switch m.Op {
	case "=":
		return v == m.Value
	case "!=":
		return v != m.Value
	case "=~", "!~":
		re := regexp.MustCompile("^(?:" + m.Value + ")$")
		ok := re.MatchString(v)
		if m.Op == "=~" {
			return ok
		}
		return !ok
	}
	panic("verifsim: bad matcher op " + m.Op)
}

// RefSelect returns the ids of the containers selected by all matchers.
func RefSelect(w *World, ms []Matcher) []string {
	var ids []string
	for i := range w.Containers {
		c := &w.Containers[i]
		labels := c.RefLabels()
		ok := true
		for _, m := range ms {
			if !RefMatch(m, labels) {
				ok = false
				break
			}
		}
		if ok {
			ids = append(ids, c.ID)
		}
	}
	return ids
}
