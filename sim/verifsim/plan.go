package verifsim

import (
	"encoding/json"
	"os"
)

// Params are the evaluation parameters of an engine-level run.
type Params struct {
	Start      int64 `json:"start"` // unix ns
	End        int64 `json:"end"`   // unix ns
	StepNs     int64 `json:"step"`
	Limit      int   `json:"limit"`
	LookbackNs int64 `json:"lookback,omitempty"` // negative; 0 = engine default
	// Repoll: parselog harness only: poll Next this many more times after it
	// returned false, before asking for Err.
	Repoll int `json:"repoll,omitempty"`
}

// CLI describes a command-level run.
type CLI struct {
	Now  int64    `json:"now"` // simulated wall clock, unix ns
	Argv []string `json:"argv"`
	// TZ, if set, is the process's local time zone for this run (time.Local).
	TZ string `json:"tz,omitempty"`
	// ClientDelayMs is the simulated time that obtaining the API client takes (a
	// connection helper starting up): time passes between the command's first look at
	// the clock and its first request.
	ClientDelayMs int `json:"client_delay_ms,omitempty"`
}

// Fault kinds.
const (
	FaultListError   = "list_error"
	FaultOpenError   = "open_error"
	FaultCut         = "cut"
	FaultReadError   = "read_error"
	FaultFrame       = "frame" // Frame + FrameKind
	FaultCancel      = "cancel"
	FaultSlowRead    = "slow_read"
	FaultOpenLatency = "open_latency"
	// FaultCloseError: Close of the reader reports an error (the reader counts as closed).
	FaultCloseError = "close_error"
	// FaultCtxCancel: from transport event Event on, the context the evaluation runs
	// under is cancelled, but the daemon goes on answering (requests already in
	// flight complete).
	FaultCtxCancel = "ctx_cancel"
	// FaultInventoryChange: from the K-th ContainerList call on, the container is
	// reported with another state and name (it was restarted/renamed meanwhile).
	FaultInventoryChange = "inventory_change"
)

// Fault is one injected fault.
type Fault struct {
	Kind      string `json:"kind"`
	Container string `json:"container,omitempty"`
	// Open selects the n-th ContainerLogs call for Container (0-based); -1 = every call.
	Open      int    `json:"open"`
	Offset    int    `json:"offset,omitempty"`     // cut, read_error, slow_read: byte offset in the stream
	Frame     int    `json:"frame,omitempty"`      // frame: index of the corrupted frame
	FrameKind string `json:"frame_kind,omitempty"` // frame: see Frame* constants
	Event     int    `json:"event,omitempty"`      // cancel: first transport event that fails
	K         int    `json:"k,omitempty"`          // list_error: index of the failing ContainerList call
	DelayMs   int    `json:"delay_ms,omitempty"`   // slow_read, open_latency
	// ErrKind selects the error value: for cut "" = io.EOF, "unexpected" =
	// io.ErrUnexpectedEOF (what an HTTP body reports when the connection drops);
	// for read_error "" = a custom error, "deadline" = context.DeadlineExceeded,
	// "closed" = io.ErrClosedPipe, "with_data" = a custom error returned together
	// with the last bytes before it (n > 0 and err != nil in one Read), "reset" /
	// "epipe" = a *net.OpError wrapping ECONNRESET / EPIPE, "canceled" = an error
	// wrapping context.Canceled although the query's own context is alive,
	// "wraps_unexpected_eof" / "wraps_eof" = an error that wraps an EOF sentinel
	// (by package io's contract that is a failure, not an end of input).
	ErrKind string `json:"err_kind,omitempty"`
}

// Variant is one execution configuration of a plan: everything the
// simulator decides that is not the world, the query or the faults.
type Variant struct {
	// Batches[k] is the release permutation of the k-th batch of concurrently
	// parked ContainerLogs calls. Missing or short entries mean arrival order.
	Batches [][]int `json:"batches,omitempty"`
	// Mode "" = sequential (one release per quiescence), "parallel" = release a
	// whole batch at once (race detector runs only).
	Mode string `json:"mode,omitempty"`
	// DelaysMs[i] is slept on the fake clock before the i-th release.
	DelaysMs []int `json:"delays_ms,omitempty"`
	// FragMode: "" = seeded, "whole" = as much as fits, "byte" = one byte per read.
	FragMode string `json:"frag_mode,omitempty"`
	FragSeed uint64 `json:"frag_seed,omitempty"`
	// MapSeed 0 = sorted order at the map-order seams.
	MapSeed uint64 `json:"map_seed,omitempty"`
	// GateReads: every Read of a simulated stream parks like a ContainerLogs call,
	// and the scheduler picks among all parked operations (opens and reads) with a
	// PRNG seeded by SchedSeed. With the shipped code (one reading goroutine) this
	// changes nothing; with code that reads in several goroutines it puts their
	// interleaving under the simulator's control.
	// StdoutFailAfter > 0: the command's stdout accepts that many bytes and then fails
	// (a closed pipe). Command-level runs only.
	StdoutFailAfter int    `json:"stdout_fail_after,omitempty"`
	GateReads       bool   `json:"gate_reads,omitempty"`
	SchedSeed       uint64 `json:"sched_seed,omitempty"`
	// Warmup > 0 (engine harness): the Engine and Querier that answer the query have
	// answered Warmup evaluations before, in the same bubble against the same daemon:
	// of WarmupQuery if set, of the plan's own query otherwise. What the earlier
	// evaluations asked of the daemon is not part of the outcome (Outcome.WarmupOpens
	// counts it); whatever they left behind in the long-lived objects must not show.
	Warmup      int    `json:"warmup,omitempty"`
	WarmupQuery string `json:"warmup_query,omitempty"`
	// After > 0 (engine harness): once the evaluation that meets the plan's faults has
	// returned, every fault stops (the daemon answers faithfully from then on) and the
	// same Engine evaluates the plan's query After more times under a fresh context.
	// Those answers are recorded in Outcome.After.
	After int `json:"after,omitempty"`
}

// Violation describes what a check found.
type Violation struct {
	Property string `json:"property"`
	Clause   string `json:"clause"`
	Expected string `json:"expected"`
	Observed string `json:"observed"`
	Detail   string `json:"detail,omitempty"`
}

// Class is the equivalence class used while shrinking.
func (v *Violation) Class() string { return v.Property + "/" + v.Clause }

// Plan is a complete description of one simulated run (with its variants).
// Execution is a pure function of the plan and the code under test.
type Plan struct {
	Property string `json:"property"`
	Seed     uint64 `json:"seed"`
	Run      uint64 `json:"run"`
	Harness  string `json:"harness"` // engine | selectlogs | parselog | cli
	Config   string `json:"config,omitempty"`

	World    World     `json:"world"`
	Query    string    `json:"query,omitempty"`
	Params   Params    `json:"params"`
	CLI      *CLI      `json:"cli,omitempty"`
	Faults   []Fault   `json:"faults,omitempty"`
	Variants []Variant `json:"variants"`

	// Tags describe how the generator classified the plan (template name,
	// fault position class, ...). Informational; used for coverage signatures.
	Tags map[string]string `json:"tags,omitempty"`

	// History, if set, says that the violation depends on what the worker process
	// had executed before this plan: replay re-runs that worker's plans 0..Run first.
	History *History `json:"history,omitempty"`

	Violation *Violation `json:"violation,omitempty"`
	EventLog  []string   `json:"event_log,omitempty"`
}

// History identifies the position of a plan in a worker's deterministic sequence.
type History struct {
	Seed    uint64 `json:"seed"`
	Tier    string `json:"tier"`
	Worker  int    `json:"worker"`
	Workers uint64 `json:"workers"`
	Index   int64  `json:"index"` // number of plans the worker had generated before this one
}

// Clone deep-copies a plan through JSON.
func (p *Plan) Clone() *Plan {
	b, err := json.Marshal(p)
	if err != nil {
		panic(err)
	}
	var out Plan
	if err := json.Unmarshal(b, &out); err != nil {
		panic(err)
	}
	return &out
}

// WriteFile stores the plan as indented JSON.
func (p *Plan) WriteFile(path string) error {
	b, err := json.MarshalIndent(p, "", " ")
	if err != nil {
		return err
	}
	return os.WriteFile(path, append(b, '\n'), 0o644)
}

// ReadPlan loads a plan.
func ReadPlan(path string) (*Plan, error) {
	b, err := os.ReadFile(path)
	if err != nil {
		return nil, err
	}
	var p Plan
	if err := json.Unmarshal(b, &p); err != nil {
		return nil, err
	}
	return &p, nil
}
