package verifsim

import (
	"fmt"
	"sort"
)

// BaseNs is the epoch around which most generated worlds live (2023-11-14T22:13:20Z).
const BaseNs = int64(1_700_000_000) * 1_000_000_000

const sec = int64(1_000_000_000)

// WorldSpec parametrises world generation.
type WorldSpec struct {
	NMin, NMax     int
	RecMin, RecMax int
	// Timestamps are drawn from [Lo, Hi] (unix ns).
	Lo, Hi int64
	// Grid > 0: most timestamps are multiples of Grid plus small jitter, which
	// makes ties within and across containers frequent.
	Grid int64
	// TieProb is the probability that a timestamp lands exactly on a grid point.
	TieProb float64
	// Unsorted: per-container logs are not time ordered.
	Unsorted bool
	// Msg: "token" (unique token only), "rich" (token + arbitrary bytes),
	// "const" (few distinct lines, no token), "raw" (anything, may be empty).
	Msg string
	// States: use non-running states too.
	States bool
	// Labels: "" none, "vocab" Docker-style keys, "prefix" prefix/concatenation-prone sets.
	Labels string
	// OffSecond keeps every timestamp strictly inside a second (never on a
	// whole-second boundary), so that window edges are never hit.
	OffSecond bool
	// AllNamed gives every container exactly one name.
	AllNamed bool
	// NoHuge disables the occasional very large message.
	NoHuge bool
	// NearTie is the probability that a timestamp lies within 0..255 ns after a grid point.
	NearTie float64
	// DupRec is the probability that a record is an exact repetition of the record before
	// it (same timestamp, same stream, same bytes): two records, not one.
	DupRec float64
	// DupTS is the probability that a record repeats the timestamp of the record before it.
	DupTS float64
}

var nameVocab = []string{"web", "web-1", "web-10", "api", "api.v2", "db", "db2", "cache", "worker", "a", "ab", "abc", "b", "proxy_1", "Z9"}
var imageVocab = []string{"nginx:1", "nginx:1.25", "redis", "postgres:16", "busybox", "ghcr.io/acme/app:v2"}
var stateVocab = []string{"running", "exited", "paused", "created"}
var labelKeyVocab = []string{"azAZ09_", "Zone.Z-z", "container.name", "container-state", "container_image", "msg", "com.docker.compose.service", "com.docker.compose.project", "app/tier", "zone-1", "tier", "weight", "1st", "maintainer", "org.opencontainers.image.title"}
var labelValVocab = []string{"web", "db", "a", "ab", "b", "", "x y", "1", "2", "12", "tier", "front-end",
	"line1\nline2", "q\"uote", "back\\slash", "ünï", "(x)", "a.b", "web", "cr\rinside", "crlf\r\n"}

func hexID(r *Rng) string { return fmt.Sprintf("%012x", r.Uint64()&0xffffffffffff) }

// GenWorld generates a world.
func GenWorld(r *Rng, s WorldSpec) World {
	n := s.NMin
	if s.NMax > s.NMin {
		n = r.Range(s.NMin, s.NMax)
	}
	var w World
	usedNames := map[string]bool{}
	usedIDs := map[string]bool{}
	for i := 0; i < n; i++ {
		cr := r.SubN("container", uint64(i))
		var c Container
		for {
			c.ID = hexID(cr)
			if !usedIDs[c.ID] {
				usedIDs[c.ID] = true
				break
			}
		}
		if s.AllNamed || cr.Bool(0.75) {
			for tries := 0; tries < 50; tries++ {
				nm := Pick(cr, nameVocab)
				if tries > 20 {
					nm = fmt.Sprintf("%s-%d", nm, i)
				}
				if !usedNames[nm] {
					usedNames[nm] = true
					c.Names = []string{"/" + nm}
					break
				}
			}
		}
		c.Image = Pick(cr, imageVocab)
		c.ImageID = "sha256:" + hexID(cr) + hexID(cr)
		c.Command = Pick(cr, []string{"nginx -g 'daemon off;'", "redis-server", "sh -c 'while true; do date; done'", "/entrypoint.sh"})
		c.Created = 1_690_000_000 + int64(cr.Intn(9_000_000))
		c.State = "running"
		if s.States && cr.Bool(0.4) {
			c.State = Pick(cr, stateVocab)
		}
		c.Status = map[string]string{"running": "Up 2 hours", "exited": "Exited (0) 3 days ago", "paused": "Up 5 minutes (Paused)", "created": "Created"}[c.State]
		switch s.Labels {
		case "vocab":
			c.Labels = map[string]string{}
			for k := cr.Intn(5); k > 0; k-- {
				c.Labels[Pick(cr, labelKeyVocab)] = Pick(cr, labelValVocab)
			}
		case "prefix":
			c.Labels = map[string]string{}
			sets := [][2]string{{"a", "bc"}, {"ab", "c"}, {"x", "1"}, {"y", "2"}, {"x", "12"}, {"a", "b"}, {"b", "a"}, {"tier", "a"}, {"a", "tier"}, {"tier", ""}, {"abc", ""}, {"weight", "3"}, {"weight", "7"}, {"a", "1"}, {"b", "2"}, {"a", "1,b=2"}, {"a", "1\",b=\"2"}}
			for k := cr.Intn(4); k > 0; k-- {
				kv := Pick(cr, sets)
				c.Labels[kv[0]] = kv[1]
			}
		}
		if s.Labels != "" && cr.Bool(0.04) {
			// A wide label set: more labels than any fixed-size shortcut would hold.
			if c.Labels == nil {
				c.Labels = map[string]string{}
			}
			for k, n := 0, 30+cr.Intn(15)+cr.Intn(2)*cr.Intn(50); k < n; k++ {
				c.Labels[fmt.Sprintf("k%02d", k)] = fmt.Sprint(k % 3)
			}
		}
		if cr.Bool(0.25) {
			c.TSStyle = "trimmed"
		} else if cr.Bool(0.08) {
			c.TSStyle = "offsets"
		}
		c.Log = genLog(cr.Sub("log"), s, i)
		w.Containers = append(w.Containers, c)
	}
	if ar := r.Sub("ambiguous-pair"); s.Labels == "prefix" && n >= 2 && ar.Bool(0.08) {
		// Two containers whose label sets differ but read the same once names and values
		// are joined into one text (or hashed piecewise) without delimiting each of them.
		pair := ambiguousPairs[ar.Intn(len(ambiguousPairs))]
		i := ar.Intn(n)
		j := (i + 1 + ar.Intn(n-1)) % n
		w.Containers[i].Labels = cloneLabels(pair[0])
		w.Containers[j].Labels = cloneLabels(pair[1])
		if ar.Bool(0.5) {
			// same image too, so that only these labels tell the two apart
			w.Containers[j].Image, w.Containers[j].ImageID = w.Containers[i].Image, w.Containers[i].ImageID
		}
	}
	return w
}

var ambiguousPairs = [][2]map[string]string{
	{{"a": "1,b=2"}, {"a": "1", "b": "2"}},
	{{"a": "1, b=2"}, {"a": "1", "b": "2"}},
	{{"a": "1 b=2"}, {"a": "1", "b": "2"}},
	{{"a": "1;b=2"}, {"a": "1", "b": "2"}},
	{{"a": `1",b="2`}, {"a": "1", "b": "2"}},
	{{"a": `1", b="2`}, {"a": "1", "b": "2"}},
	{{"a": "1\nb=2"}, {"a": "1", "b": "2"}},
	{{"a": "1|b=2"}, {"a": "1", "b": "2"}},
	{{"a": "bc"}, {"ab": "c"}},
	{{"a": "b", "ab": ""}, {"a": "", "ab": "b"}},
	{{"x": "12", "y": ""}, {"x": "1", "y": "2"}},
	{{"x": "1", "y": "2"}, {"x": "2", "y": "1"}},
	{{"a": "1", "b": "2"}, {"a": "2", "b": "1"}},
	{{"tier": "a,b"}, {"tier": "a", "b": ""}},
}

func genLog(r *Rng, s WorldSpec, ci int) []Record {
	n := s.RecMin
	if s.RecMax > s.RecMin {
		n = r.Range(s.RecMin, s.RecMax)
	}
	if n > 0 && r.Bool(0.08) && s.RecMin == 0 {
		n = 0
	}
	recs := make([]Record, 0, n)
	span := s.Hi - s.Lo
	for j := 0; j < n; j++ {
		var ts int64
		if s.Grid > 0 && span >= s.Grid {
			steps := span / s.Grid
			ts = s.Lo + r.Int63n(steps+1)*s.Grid
			if s.NearTie > 0 && r.Bool(s.NearTie) {
				ts += r.Int63n(256)
			} else if !r.Bool(s.TieProb) {
				ts += r.Int63n(s.Grid)
			}
		} else if span > 0 {
			ts = s.Lo + r.Int63n(span+1)
		} else {
			ts = s.Lo
		}
		if ts > s.Hi {
			ts = s.Hi
		}
		if s.OffSecond && ts%sec == 0 {
			ts += 1 + r.Int63n(sec-2)
			if ts > s.Hi {
				ts -= sec
			}
		}
		t := 1
		if r.Bool(0.3) {
			t = 2
		}
		recs = append(recs, Record{T: t, TS: ts, Msg: genMsg(r, s, ci, j)})
	}
	if !s.Unsorted {
		sort.SliceStable(recs, func(a, b int) bool { return recs[a].TS < recs[b].TS })
	}
	if s.DupRec > 0 {
		dr := r.Sub("dup-rec")
		for j := 1; j < len(recs); j++ {
			if dr.Bool(s.DupRec) {
				recs[j] = Record{T: recs[j-1].T, TS: recs[j-1].TS, Msg: append([]byte(nil), recs[j-1].Msg...)}
			}
		}
	}
	if s.DupTS > 0 {
		dr := r.Sub("dup-ts")
		for j := 1; j < len(recs); j++ {
			if dr.Bool(s.DupTS) {
				recs[j].TS = recs[j-1].TS
			}
		}
	}
	return recs
}

var longConstLines = func() [][]byte {
	var out [][]byte
	for _, n := range []int{300, 1200, 2100, 4200, 9000, 33000, 66000, 70000, 140000} {
		b := make([]byte, n)
		for i := range b {
			b[i] = byte('a' + (i*5+n)%26)
		}
		out = append(out, b)
	}
	return out
}()

var constLines = []string{"GET / 200", "GET /health 200", "error: boom", "level=info msg=ok"}

func genMsg(r *Rng, s WorldSpec, ci, j int) []byte {
	token := fmt.Sprintf("c%dr%d", ci, j)
	switch s.Msg {
	case "const":
		if r.Bool(0.04) {
			// an occasional long line among the short ones (same container, same group)
			l := longConstLines[r.Intn(len(longConstLines))]
			if r.Bool(0.5) {
				// the same line but for a few bytes in its middle
				l = append([]byte(nil), l...)
				l[len(l)/2] = byte('A' + r.Intn(3))
			}
			return l
		}
		return []byte(constLines[r.Intn(len(constLines))])
	case "token":
		return []byte(token)
	case "jsonmix":
		return []byte(Pick(r, []string{`{"s":200}`, `{"s":"200"}`, `{"s":200.0}`, `{"s":"a"}`, `{"s":1}`, `{"s":"1"}`, `{"s":1.0,"t":"x"}`, `{"s":true}`, `{"s":"true"}`}))
	case "kv":
		return []byte(Pick(r, []string{"a=bc", "ab=c", "x=1 y=2", "x=12", "a=b", "b=a", "a=1,b=2", "a=1 b=2", "abc=", "a=bc k=1", "ab=c k=1",
			// a value whose raw bytes spell out a separator some encoding might use, next to the pair it would be confused with
			"a=1\xffb\xff2", "a=1\x00b\x002", "a=1\x1fb\x1f2", "a=1\xfeb\xfe2", "a=1 b=2", "a=1 b=2"}))
	case "structured", "logfmtk":
		level := []string{"info", "warn", "error"}[r.Intn(3)]
		k := r.Intn(5)
		shape := r.Intn(3)
		if s.Msg == "logfmtk" {
			// every line carries a numeric k in logfmt form: one series per line under | logfmt | unwrap k
			shape = 0
		}
		switch shape {
		case 0:
			if r.Bool(0.06) {
				// a rare value: not-a-number
				return []byte(fmt.Sprintf("level=%s k=NaN tok=%s", level, token))
			}
			if r.Bool(0.05) {
				// zero with a sign: equal as numbers, different as text
				return []byte(fmt.Sprintf("level=%s k=%s tok=%s", level, []string{"-0.0", "0.0", "-0"}[r.Intn(3)], token))
			}
			return []byte(fmt.Sprintf("level=%s k=%d tok=%s text=\"hello world\"", level, k, token))
		case 1:
			return []byte(fmt.Sprintf(`{"level":%q,"k":%d,"tok":%q,"nested":{"a":"b"}}`, level, k, token))
		}
		return []byte(fmt.Sprintf("%s %s request took %dms", token, level, 10*k))
	case "raw":
		switch x := r.Intn(100); {
		case x < 8:
			return []byte{}
		case x < 16:
			return []byte(" leading space and trailing ")
		case x < 24:
			return []byte("line\n")
		case x < 32:
			return []byte("crlf\r\n")
		case x < 40:
			return []byte{0xff, 0xfe, 0x00, 0x80, ' ', 0xc3, 0x28}
		case x < 44 && !s.NoHuge:
			return hugeMsg(r)
		case x < 50:
			return thresholdMsg(r)
		case x < 54:
			// text that looks like the tail of a timestamp at every offset
			return []byte([]string{"Z Z Z Z Z Z Z Z Z Z Z Z Z Z", " Z Z Z Z Z Z Z Z Z Z Z Z Z", "5Z 5Z 5Z 5Z 5Z 5Z 5Z", "+02:00 +02:00 Z +02:00"}[r.Intn(4)])
		}
		fallthrough
	default: // rich
		b := []byte(token)
		switch x := r.Intn(100); {
		case x < 30:
		case x < 50:
			b = append(b, " hello world  two  spaces"...)
		case x < 60:
			b = append(b, " with newline\n"...)
		case x < 68:
			b = append(b, "\r\n"...)
		case x < 76:
			b = append(b, ' ', 0xff, 0xfe, 0x80)
		case x < 84:
			b = append(b, " 2023-11-14T22:13:20.000000001Z looks like a timestamp"...)
		case x < 87 && !s.NoHuge:
			b = append(b, ' ')
			b = append(b, hugeMsg(r)...)
		case x < 90 && !s.NoHuge:
			b = append(b, ' ')
			b = append(b, thresholdMsg(r)...)
		default:
			b = append(b, ' ')
			for k := r.Intn(40); k > 0; k-- {
				b = append(b, byte(32+r.Intn(95)))
			}
		}
		return b
	}
}

// thresholdMsg returns a message whose frame straddles a common buffer size.
func thresholdMsg(r *Rng) []byte {
	t := []int{512, 1024, 4096, 4096, 8192, 16384, 32768}[r.Intn(7)]
	n := t - 40 + r.Intn(80)
	b := make([]byte, n)
	for i := range b {
		b[i] = byte('a' + (i*11+n)%26)
	}
	return b
}

func hugeMsg(r *Rng) []byte {
	n := 16*1024 + r.Intn(54*1024)
	b := make([]byte, n)
	for i := range b {
		b[i] = byte('a' + (i*7+n)%26)
	}
	return b
}

// genVariant draws an execution variant. batchSizes gives the expected sizes
// of the concurrent open batches (used to draw permutations); exhaustive, if
// non-negative, selects the Lehmer index for the first batch.
func genVariant(r *Rng, batchSizes []int, lehmer int64, mapSeed bool, delays bool) Variant {
	var v Variant
	for bi, n := range batchSizes {
		var perm []int
		if bi == 0 && lehmer >= 0 {
			perm = LehmerPerm(n, uint64(lehmer))
		} else {
			perm = r.Perm(n)
		}
		v.Batches = append(v.Batches, perm)
	}
	switch x := r.Intn(100); {
	case x < 70:
		v.FragSeed = r.Uint64() | 1
	case x < 85:
		v.FragMode = "whole"
	default:
		v.FragMode = "byte"
	}
	if mapSeed {
		v.MapSeed = r.Uint64() | 1
	}
	if r.Bool(0.15) {
		v.GateReads = true
		v.SchedSeed = r.Uint64() | 1
	}
	if delays && r.Bool(0.3) {
		total := 0
		for _, n := range batchSizes {
			total += n
		}
		for i := 0; i < total; i++ {
			v.DelaysMs = append(v.DelaysMs, r.Intn(4)*r.Intn(500))
		}
	}
	return v
}

// stdOpts are the options a correct client sends.
func stdOpts() LogsOpts {
	return LogsOpts{ShowStdout: true, ShowStderr: true, Timestamps: true, Tail: "all"}
}
