package verifsim

import (
	"encoding/json"
	"os"
	"strings"
)

// KnownFinding is one entry of /verif/known_findings.json.
type KnownFinding struct {
	ID          string `json:"id"`
	Property    string `json:"property"`
	Status      string `json:"status"` // open | fixed
	Commit      string `json:"commit,omitempty"`
	Description string `json:"description"`
	// Match: all present conditions must hold for a minimised violation to be
	// this finding. A fixed finding matches nothing.
	Clause           string            `json:"clause,omitempty"`
	Tags             map[string]string `json:"tags,omitempty"`
	QueryContains    string            `json:"query_contains,omitempty"`
	ObservedContains string            `json:"observed_contains,omitempty"`
}

type knownFile struct {
	Findings []KnownFinding `json:"findings"`
}

func loadKnown(path string) *knownFile {
	k := &knownFile{}
	if path == "" {
		return k
	}
	b, err := os.ReadFile(path)
	if err != nil {
		return k
	}
	if err := json.Unmarshal(b, k); err != nil {
		panic("verifsim: known findings file does not parse: " + err.Error())
	}
	return k
}

// match returns "property=<id> <description>" of the open finding that the
// minimised plan reproduces, or "".
func (k *knownFile) match(p *Plan) string {
	if p.Violation == nil {
		return ""
	}
	for _, f := range k.Findings {
		if f.Status != "open" || f.Property != p.Property {
			continue
		}
		if f.Clause != "" && f.Clause != p.Violation.Clause {
			continue
		}
		if f.QueryContains != "" && !strings.Contains(p.Query, f.QueryContains) {
			continue
		}
		if f.ObservedContains != "" && !strings.Contains(p.Violation.Observed, f.ObservedContains) {
			continue
		}
		ok := true
		for _, tk := range sortedKeys(f.Tags) {
			if p.Tags[tk] != f.Tags[tk] {
				ok = false
			}
		}
		if !ok {
			continue
		}
		return "property=" + f.Property + " " + f.ID + ": " + f.Description
	}
	return ""
}
