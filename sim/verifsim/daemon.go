package verifsim

import (
	"context"
	"errors"
	"fmt"
	"io"
	"net"
	"os"
	"sort"
	"strconv"
	"sync"
	"syscall"
	"time"

	"github.com/docker/docker/api/types"
	apicontainer "github.com/docker/docker/api/types/container"
	"github.com/docker/docker/client"
	"github.com/docker/docker/errdefs"
)

// What an inventory_change fault turns a container into.
const (
	ChangedState  = "exited"
	ChangedStatus = "Exited (137) 1 second ago"
)

// ChangedName is the name a container carries after an inventory_change fault.
func ChangedName(id string) string { return "renamed-" + id[:4] }

// ErrInjected is the error injected by read/open/list faults.
var ErrInjected = errors.New("verifsim: injected fault")

// LogsOpts records the options of one ContainerLogs call.
type LogsOpts struct {
	ShowStdout bool   `json:"stdout"`
	ShowStderr bool   `json:"stderr"`
	Since      string `json:"since"`
	Until      string `json:"until"`
	Timestamps bool   `json:"timestamps"`
	Follow     bool   `json:"follow"`
	Tail       string `json:"tail"`
	Details    bool   `json:"details"`
}

// ListCall records one ContainerList call.
type ListCall struct {
	Seq     int  `json:"seq"`
	All     bool `json:"all"`
	Limit   int  `json:"limit"`
	Filters int  `json:"filters"`
	Failed  bool `json:"failed"`
}

// OpenCall records one ContainerLogs call.
type OpenCall struct {
	Seq        int      `json:"seq"`
	ID         string   `json:"id"`
	OpenIdx    int      `json:"open_idx"` // n-th call for this container id
	Batch      int      `json:"batch"`
	Opts       LogsOpts `json:"opts"`
	ReleaseOrd int      `json:"release_ord"` // global ordinal of the release, -1 if never released
	Err        string   `json:"err,omitempty"`
	Stream     int      `json:"stream"`          // index into Streams, -1 if none
	Phase      int      `json:"phase,omitempty"` // harness-defined phase (e.g. an earlier selection through the same querier)

	key int // deterministic order key: position in the inventory, then open index
}

// StreamInfo records what happened to one reader handed out by the daemon.
type StreamInfo struct {
	ID          string `json:"id"`
	OpenIdx     int    `json:"open_idx"`
	Len         int    `json:"len"`
	Frames      int    `json:"frames"`
	Delivered   int    `json:"delivered"`
	Reads       int    `json:"reads"`
	ZeroReads   int    `json:"zero_reads"`
	DataWithEOF bool   `json:"data_with_eof"`
	ErrWithData bool   `json:"err_with_data,omitempty"`
	// CloseErrDelivered: Close of this reader returned an (injected) error.
	CloseErrDelivered bool `json:"close_err_delivered,omitempty"`
	EOFDelivered      bool `json:"eof_delivered"`
	ErrDelivered      bool `json:"err_delivered"`
	CancelObserved    bool `json:"cancel_observed"`
	Closes            int  `json:"closes"`
	ReadAfterClose    int  `json:"read_after_close"`
	OpenAtReturn      bool `json:"open_at_return,omitempty"`
	// CutClass classifies the cut offset, if the stream carries a cut fault:
	// boundary | header | hdr_body | body
	CutClass string `json:"cut_class,omitempty"`
	// BadFrameEnd is the end offset of the first corrupted frame (0 = none).
	BadFrameEnd int `json:"bad_frame_end,omitempty"`
	// WholeFramesBeforeStop is the number of intact frames before the first
	// stop point (cut, read error, corrupted frame, or end of data).
	WholeFramesBeforeStop int `json:"whole_frames_before_stop"`
}

// Layout is an encoded stream with its frame boundaries.
type Layout struct {
	Data []byte
	Ends []int // Ends[i] = offset just past frame i
	Recs []int // Recs[i] = index of the container record behind frame i
}

// FrameStart returns the start offset of frame i.
func (l Layout) FrameStart(i int) int {
	if i == 0 {
		return 0
	}
	return l.Ends[i-1]
}

// Classify classifies an offset: boundary | header | hdr_body | body, and
// returns the number of whole frames before it.
func (l Layout) Classify(off int) (class string, whole int) {
	for i, end := range l.Ends {
		start := l.FrameStart(i)
		switch {
		case off == start:
			return "boundary", i
		case off < start+8:
			return "header", i
		case off == start+8 && off < end:
			return "hdr_body", i
		case off < end:
			return "body", i
		}
	}
	return "boundary", len(l.Ends)
}

// BuildStream encodes the log of c as the daemon would send it for opts.
// frameKinds maps a frame index (after filtering) to a corrupted encoding.
func BuildStream(c *Container, opts LogsOpts, frameKinds map[int]string) (Layout, error) {
	since, hasSince, err := parseDaemonTime(opts.Since)
	if err != nil {
		return Layout{}, err
	}
	until, hasUntil, err := parseDaemonTime(opts.Until)
	if err != nil {
		return Layout{}, err
	}
	var idx []int
	for i, r := range c.Log {
		if r.T == 1 && !opts.ShowStdout || r.T == 2 && !opts.ShowStderr {
			continue
		}
		if hasSince && r.TS < since {
			continue
		}
		if hasUntil && until != 0 && r.TS > until {
			continue
		}
		idx = append(idx, i)
	}
	if n, perr := strconv.Atoi(opts.Tail); perr == nil && n >= 0 && n < len(idx) {
		idx = idx[len(idx)-n:]
	}
	var l Layout
	for fi, ri := range idx {
		l.Data = append(l.Data, c.EncodeFrame(c.Log[ri], opts.Timestamps, frameKinds[fi])...)
		l.Ends = append(l.Ends, len(l.Data))
		l.Recs = append(l.Recs, ri)
	}
	return l, nil
}

type gate struct {
	ch   chan struct{}
	call *OpenCall
}

// readGate parks one Read of a stream (GateReads mode).
type readGate struct {
	ch     chan struct{}
	stream int // index of the stream in Daemon.Streams
	kind   int // 0 read, 1 close
}

// Daemon is the simulated Docker daemon plus API client.
type Daemon struct {
	client.APIClient // nil: any other method panics (harness limit)

	world   *World
	faults  []Fault
	variant *Variant
	noSleep bool

	mu      sync.Mutex
	seq     int
	hash    uint64
	verbose bool
	log     []string

	Lists       []ListCall
	opens       []*OpenCall
	Streams     []*SimStream
	parked      []*gate
	parkedReads []*readGate
	arrival     chan struct{}
	never       chan struct{}

	opensByID map[string]int
	wakes     []time.Time
	phase     int
	// CancelFn cancels the context the evaluation runs under (cancel fault).
	CancelFn     func()
	ctxCancelAt  int // -1 = never
	CtxCancelled bool
	cancelAt     int // -1 = never
	cancelSeen   bool
	FaultsFired  map[string]int
	sleepers     int
	releaseCount int
}

// NewDaemon creates the simulated daemon. Must be called inside the bubble
// when the run uses the scheduler (it creates channels).
func NewDaemon(w *World, faults []Fault, v *Variant, verbose bool) *Daemon {
	d := &Daemon{
		world:       w,
		faults:      faults,
		variant:     v,
		verbose:     verbose,
		arrival:     make(chan struct{}, 1),
		never:       make(chan struct{}),
		opensByID:   map[string]int{},
		cancelAt:    -1,
		FaultsFired: map[string]int{},
		hash:        14695981039346656037,
	}
	d.ctxCancelAt = -1
	for _, f := range faults {
		if f.Kind == FaultCancel {
			if d.cancelAt < 0 || f.Event < d.cancelAt {
				d.cancelAt = f.Event
			}
		}
		if f.Kind == FaultCtxCancel {
			if d.ctxCancelAt < 0 || f.Event < d.ctxCancelAt {
				d.ctxCancelAt = f.Event
			}
		}
	}
	return d
}

// ev records a transport event: it advances the event counter, folds the
// event into the run hash and, in verbose mode, appends a readable line.
// Caller holds d.mu.
func (d *Daemon) ev(kind string, id string, a, b int) int {
	d.seq++
	if d.ctxCancelAt >= 0 && d.seq >= d.ctxCancelAt && !d.CtxCancelled {
		d.CtxCancelled = true
		d.FaultsFired[FaultCtxCancel]++
		if d.CancelFn != nil {
			d.CancelFn()
		}
	}
	h := d.hash
	for i := 0; i < len(kind); i++ {
		h = (h ^ uint64(kind[i])) * 1099511628211
	}
	for i := 0; i < len(id); i++ {
		h = (h ^ uint64(id[i])) * 1099511628211
	}
	h = (h ^ uint64(a)) * 1099511628211
	h = (h ^ uint64(b)) * 1099511628211
	d.hash = h
	if d.verbose {
		d.log = append(d.log, fmt.Sprintf("%04d %s %s %d %d", d.seq, kind, id, a, b))
	}
	return d.seq
}

// note adds a non-transport line (scheduler decisions) to the log.
func (d *Daemon) note(kind string, a, b int) {
	d.mu.Lock()
	defer d.mu.Unlock()
	h := d.hash
	for i := 0; i < len(kind); i++ {
		h = (h ^ uint64(kind[i])) * 1099511628211
	}
	h = (h ^ uint64(a)) * 1099511628211
	h = (h ^ uint64(b)) * 1099511628211
	d.hash = h
	if d.verbose {
		d.log = append(d.log, fmt.Sprintf("     %s %d %d", kind, a, b))
	}
}

// cancelled reports whether the cancel fault is in force for the transport
// event that is about to be (or has just been) numbered seq. Caller holds d.mu.
func (d *Daemon) cancelled(seq int) bool {
	if d.cancelAt >= 0 && seq >= d.cancelAt {
		if !d.cancelSeen {
			d.cancelSeen = true
			d.FaultsFired[FaultCancel]++
			if d.CancelFn != nil {
				// the query's context is cancelled for real, not only the calls
				d.CancelFn()
			}
		}
		return true
	}
	return false
}

// ContainerList implements client.APIClient.
func (d *Daemon) ContainerList(_ context.Context, opts apicontainer.ListOptions) ([]types.Container, error) {
	d.mu.Lock()
	defer d.mu.Unlock()
	k := len(d.Lists)
	seq := d.ev("list", "", k, 0)
	call := ListCall{Seq: seq, All: opts.All, Limit: opts.Limit, Filters: opts.Filters.Len()}
	if d.cancelled(seq) {
		call.Failed = true
		d.Lists = append(d.Lists, call)
		return nil, context.Canceled
	}
	for _, f := range d.faults {
		if f.Kind == FaultListError && f.K == k {
			call.Failed = true
			d.Lists = append(d.Lists, call)
			d.FaultsFired[FaultListError]++
			return nil, fmt.Errorf("list containers: %w", ErrInjected)
		}
	}
	d.Lists = append(d.Lists, call)
	var out []types.Container
	for i := range d.world.Containers {
		c := &d.world.Containers[i]
		state, status, names, image := c.State, c.Status, append([]string(nil), c.Names...), c.Image
		for _, f := range d.faults {
			if f.Kind == FaultInventoryChange && f.Container == c.ID && k >= f.K {
				if f.ErrKind == "retag" {
					// the tag moved on: the daemon now reports the image by its ID
					image = c.ImageID
				} else {
					names = []string{"/" + ChangedName(c.ID)}
					if f.ErrKind != "rename" {
						state, status = ChangedState, ChangedStatus
					}
				}
				d.FaultsFired[FaultInventoryChange]++
			}
		}
		if !opts.All && state != "running" {
			continue
		}
		var labels map[string]string
		if c.Labels != nil {
			labels = make(map[string]string, len(c.Labels))
			for k, v := range c.Labels {
				labels[k] = v
			}
		}
		out = append(out, types.Container{
			ID:      c.ID,
			Names:   names,
			Image:   image,
			ImageID: c.ImageID,
			Command: c.Command,
			Created: c.Created,
			State:   state,
			Status:  status,
			Labels:  labels,
		})
	}
	if opts.Limit > 0 && len(out) > opts.Limit {
		out = out[:opts.Limit]
	}
	return out, nil
}

// ContainerLogs implements client.APIClient. The call parks on a gate until
// the scheduler releases it.
func (d *Daemon) ContainerLogs(_ context.Context, id string, o apicontainer.LogsOptions) (io.ReadCloser, error) {
	opts := LogsOpts{
		ShowStdout: o.ShowStdout, ShowStderr: o.ShowStderr, Since: o.Since, Until: o.Until,
		Timestamps: o.Timestamps, Follow: o.Follow, Tail: o.Tail, Details: o.Details,
	}
	d.mu.Lock()
	openIdx := d.opensByID[id]
	d.opensByID[id] = openIdx + 1
	// Concurrent callers arrive in an order the runtime chooses; nothing that
	// is recorded, hashed or scheduled may depend on it. The arrival only
	// advances the event counter (all arrivals of a batch precede its first
	// release, so the counter is the same at every quiescence point).
	d.seq++
	call := &OpenCall{ID: id, OpenIdx: openIdx, Opts: opts, ReleaseOrd: -1, Stream: -1, Phase: d.phase, key: d.worldIndex(id)*1000 + openIdx}
	d.opens = append(d.opens, call)
	g := &gate{ch: make(chan struct{}), call: call}
	d.parked = append(d.parked, g)
	d.mu.Unlock()

	select {
	case d.arrival <- struct{}{}:
	default:
	}
	<-g.ch

	// Latency before the response.
	for _, f := range d.faults {
		if f.Kind == FaultOpenLatency && f.Container == id && (f.Open < 0 || f.Open == openIdx) {
			d.sleep(f.DelayMs, FaultOpenLatency)
		}
	}

	d.mu.Lock()
	defer d.mu.Unlock()
	seq2 := d.ev("opened", id, openIdx, 0)
	fail := func(err error) (io.ReadCloser, error) {
		call.Err = err.Error()
		return nil, err
	}
	if d.cancelled(seq2) {
		return fail(context.Canceled)
	}
	for _, f := range d.faults {
		if f.Kind == FaultOpenError && f.Container == id && (f.Open < 0 || f.Open == openIdx) {
			d.FaultsFired[FaultOpenError]++
			switch f.ErrKind {
			case "not_found":
				// the container was removed between the listing and this request
				return fail(errdefs.NotFound(fmt.Errorf("No such container: %s: %w", id, ErrInjected)))
			case "not_implemented":
				// its logging driver does not support reading
				return fail(errdefs.NotImplemented(fmt.Errorf("configured logging driver does not support reading: %w", ErrInjected)))
			}
			return fail(fmt.Errorf("open %s: %w", id, ErrInjected))
		}
	}
	c := d.world.Find(id)
	if c == nil {
		return fail(fmt.Errorf("no such container: %s", id))
	}
	frameKinds := map[int]string{}
	for _, f := range d.faults {
		if f.Kind == FaultFrame && f.Container == id && (f.Open < 0 || f.Open == openIdx) {
			frameKinds[f.Frame] = f.FrameKind
		}
	}
	layout, err := BuildStream(c, opts, frameKinds)
	if err != nil {
		return fail(err)
	}
	s := newSimStream(d, id, openIdx, layout, opts.Follow, frameKinds)
	call.Stream = len(d.Streams)
	d.Streams = append(d.Streams, s)
	return s, nil
}

func (d *Daemon) sleep(ms int, kind string) {
	if ms <= 0 || d.noSleep {
		return
	}
	dur := time.Duration(ms) * time.Millisecond
	wake := time.Now().Add(dur)
	d.mu.Lock()
	d.FaultsFired[kind]++
	d.sleepers++
	d.wakes = append(d.wakes, wake)
	d.mu.Unlock()
	time.Sleep(dur)
	d.mu.Lock()
	d.sleepers--
	for i, w := range d.wakes {
		if w.Equal(wake) {
			d.wakes = append(d.wakes[:i], d.wakes[i+1:]...)
			break
		}
	}
	d.mu.Unlock()
}

// nextWake returns the earliest pending wake-up of a sleeping goroutine.
func (d *Daemon) nextWake() (time.Time, bool) {
	d.mu.Lock()
	defer d.mu.Unlock()
	if len(d.wakes) == 0 {
		return time.Time{}, false
	}
	min := d.wakes[0]
	for _, w := range d.wakes[1:] {
		if w.Before(min) {
			min = w
		}
	}
	return min, true
}

// worldIndex returns the position of the container in the inventory. Caller holds d.mu.
func (d *Daemon) worldIndex(id string) int {
	for i := range d.world.Containers {
		if d.world.Containers[i].ID == id {
			return i
		}
	}
	return len(d.world.Containers)
}

// FaultsOff ends every injected fault: from now on the daemon answers faithfully.
// Streams that are already open keep the fate they were given.
func (d *Daemon) FaultsOff() {
	d.mu.Lock()
	d.faults = nil
	d.cancelAt, d.ctxCancelAt = -1, -1
	d.mu.Unlock()
}

// SetPhase labels the ContainerLogs calls that follow.
func (d *Daemon) SetPhase(n int) {
	d.mu.Lock()
	d.phase = n
	d.mu.Unlock()
}

// Parked returns the currently parked calls in inventory order (never in
// arrival order, which the runtime chooses).
func (d *Daemon) Parked() []*gate {
	d.mu.Lock()
	defer d.mu.Unlock()
	out := append([]*gate(nil), d.parked...)
	sort.SliceStable(out, func(i, j int) bool { return out[i].call.key < out[j].call.key })
	return out
}

// OpenCalls returns the recorded ContainerLogs calls in a deterministic
// order: by batch, then inventory position, then open index.
func (d *Daemon) OpenCalls() []OpenCall {
	d.mu.Lock()
	defer d.mu.Unlock()
	out := make([]OpenCall, 0, len(d.opens))
	for _, c := range d.opens {
		out = append(out, *c)
	}
	sort.SliceStable(out, func(i, j int) bool {
		if out[i].Batch != out[j].Batch {
			return out[i].Batch < out[j].Batch
		}
		return out[i].key < out[j].key
	})
	return out
}

// Sleepers returns the number of goroutines sleeping on the fake clock.
func (d *Daemon) Sleepers() int {
	d.mu.Lock()
	defer d.mu.Unlock()
	return d.sleepers
}

// Release lets one parked call proceed.
func (d *Daemon) Release(g *gate, batch int) {
	d.mu.Lock()
	for i, p := range d.parked {
		if p == g {
			d.parked = append(d.parked[:i], d.parked[i+1:]...)
			break
		}
	}
	g.call.ReleaseOrd = d.releaseCount
	g.call.Batch = batch
	d.releaseCount++
	key := g.call.key
	d.mu.Unlock()
	d.note("release", key, batch)
	close(g.ch)
}

// SimStream is the simulated response body of one ContainerLogs call.
type SimStream struct {
	d      *Daemon
	layout Layout
	follow bool
	rng    *Rng
	mode   string

	off         int
	stop        int    // offset at which the stream stops (cut / read error / end)
	stopKind    string // "" end of data | cut | read_error
	slowAt      map[int]int
	eof         bool
	failed      bool
	closed      bool
	zeroStreak  int
	errWithData bool  // read_error: deliver the error together with the last bytes before it
	eofErr      error // what the end of the stream is reported with
	readErr     error // what a read_error fault returns

	Info StreamInfo
}

// StopInfo says where and how a stream stops, given the faults that apply to it.
type StopInfo struct {
	Stop        int    // offset at which delivery stops
	Kind        string // "" end of data | cut | read_error
	Class       string // boundary | header | hdr_body | body (of Stop)
	Whole       int    // intact frames wholly delivered before the first failure point
	BadFrameEnd int    // end offset of the first corrupted frame delivered before Stop (0 = none)
	BadFrame    int    // its index, -1 = none
	ErrKind     string // error flavour of the fault at Stop
}

// WantErr reports whether a decoder that reads the stream to its end must
// report an error.
func (si StopInfo) WantErr() bool {
	if si.BadFrameEnd > 0 {
		return true
	}
	switch si.Kind {
	case FaultReadError:
		return true
	case FaultCut:
		return si.Class == "hdr_body" || si.Class == "body"
	}
	return false
}

// ComputeStop evaluates the faults applying to stream (id, openIdx) against its layout.
func ComputeStop(l Layout, faults []Fault, id string, openIdx int) StopInfo {
	si := StopInfo{Stop: len(l.Data), BadFrame: -1}
	for _, f := range faults {
		if f.Container != id || (f.Open >= 0 && f.Open != openIdx) {
			continue
		}
		switch f.Kind {
		case FaultCut, FaultReadError:
			if f.Offset < 0 || f.Offset > len(l.Data) {
				continue
			}
			if f.Kind == FaultCut && f.Offset == len(l.Data) {
				// A cut at the very end is the ordinary end of data.
				continue
			}
			if f.Offset < si.Stop || (f.Offset == si.Stop && si.Kind == "") {
				si.Stop = f.Offset
				si.Kind = f.Kind
				si.ErrKind = f.ErrKind
			}
		}
	}
	si.Class, si.Whole = l.Classify(si.Stop)
	for _, f := range faults {
		if f.Kind != FaultFrame || f.Container != id || (f.Open >= 0 && f.Open != openIdx) || f.FrameKind == FrameOK {
			continue
		}
		if f.Frame >= 0 && f.Frame < len(l.Ends) && f.Frame < si.Whole && (si.BadFrame < 0 || f.Frame < si.BadFrame) {
			si.BadFrame = f.Frame
		}
	}
	if si.BadFrame >= 0 {
		si.Whole = si.BadFrame
		si.BadFrameEnd = l.Ends[si.BadFrame]
	}
	return si
}

func newSimStream(d *Daemon, id string, openIdx int, l Layout, follow bool, _ map[int]string) *SimStream {
	s := &SimStream{d: d, layout: l, follow: follow, slowAt: map[int]int{}}
	s.Info = StreamInfo{ID: id, OpenIdx: openIdx, Len: len(l.Data), Frames: len(l.Ends)}
	v := d.variant
	s.mode = v.FragMode
	s.rng = NewRng(v.FragSeed).SubN("frag/"+id, uint64(openIdx))
	for _, f := range d.faults {
		if f.Container != id || (f.Open >= 0 && f.Open != openIdx) {
			continue
		}
		if f.Kind == FaultSlowRead && f.Offset >= 0 && f.Offset < len(l.Data) {
			s.slowAt[f.Offset] = f.DelayMs
		}
	}
	si := ComputeStop(l, d.faults, id, openIdx)
	s.stop, s.stopKind = si.Stop, si.Kind
	s.eofErr, s.readErr = io.EOF, fmt.Errorf("read %s: %w", id, ErrInjected)
	switch {
	case si.Kind == FaultCut && si.ErrKind == "unexpected":
		s.eofErr = io.ErrUnexpectedEOF
	case si.Kind == FaultReadError && si.ErrKind == "deadline":
		s.readErr = context.DeadlineExceeded
	case si.Kind == FaultReadError && si.ErrKind == "closed":
		s.readErr = io.ErrClosedPipe
	case si.Kind == FaultReadError && si.ErrKind == "reset":
		// what a read on a TCP connection reports when the peer went away
		s.readErr = &net.OpError{Op: "read", Net: "tcp", Err: os.NewSyscallError("read", syscall.ECONNRESET)}
	case si.Kind == FaultReadError && si.ErrKind == "epipe":
		s.readErr = &net.OpError{Op: "read", Net: "unix", Err: os.NewSyscallError("read", syscall.EPIPE)}
	case si.Kind == FaultReadError && si.ErrKind == "wraps_unexpected_eof":
		// An error that merely wraps an EOF sentinel is an error, not an end of input: "Read
		// must return EOF itself, not an error wrapping EOF, because callers will test for
		// EOF using ==" (package io).
		s.readErr = &net.OpError{Op: "read", Net: "tcp", Err: io.ErrUnexpectedEOF}
	case si.Kind == FaultReadError && si.ErrKind == "wraps_eof":
		s.readErr = fmt.Errorf("read tcp %s: %w", id, io.EOF)
	case si.Kind == FaultReadError && si.ErrKind == "canceled":
		// a cancellation that is not the query's own (the daemon's side gave up)
		s.readErr = fmt.Errorf("read %s: %w", id, context.Canceled)
	case si.Kind == FaultReadError && si.ErrKind == "with_data":
		s.errWithData = true
	}
	if si.Kind == FaultCut {
		s.Info.CutClass = si.Class
	}
	s.Info.WholeFramesBeforeStop = si.Whole
	s.Info.BadFrameEnd = si.BadFrameEnd
	return s
}

// nextMark returns the next frame-structure offset (header end or frame end) after off.
func (s *SimStream) nextMark(off int) int {
	for i, end := range s.layout.Ends {
		if off < end {
			start := s.layout.FrameStart(i)
			if off < start+8 {
				return start + 8
			}
			return end
		}
	}
	return len(s.layout.Data)
}

func (d *Daemon) listCount() int {
	d.mu.Lock()
	defer d.mu.Unlock()
	return len(d.Lists)
}

// ParkedReads returns the parked reads ordered by stream index.
func (d *Daemon) ParkedReads() []*readGate {
	d.mu.Lock()
	defer d.mu.Unlock()
	out := append([]*readGate(nil), d.parkedReads...)
	sort.SliceStable(out, func(i, j int) bool {
		if out[i].stream != out[j].stream {
			return out[i].stream < out[j].stream
		}
		return out[i].kind < out[j].kind
	})
	return out
}

// ReleaseRead lets one parked read proceed.
func (d *Daemon) ReleaseRead(g *readGate) {
	d.mu.Lock()
	for i, p := range d.parkedReads {
		if p == g {
			d.parkedReads = append(d.parkedReads[:i], d.parkedReads[i+1:]...)
			break
		}
	}
	d.mu.Unlock()
	d.note("release_read", g.stream, 0)
	close(g.ch)
}

// park blocks the calling Read or Close until the scheduler releases it (GateReads mode).
func (s *SimStream) park(kind int) {
	d := s.d
	d.mu.Lock()
	idx := -1
	for i, st := range d.Streams {
		if st == s {
			idx = i
		}
	}
	g := &readGate{ch: make(chan struct{}), stream: idx, kind: kind}
	d.parkedReads = append(d.parkedReads, g)
	d.mu.Unlock()
	select {
	case d.arrival <- struct{}{}:
	default:
	}
	<-g.ch
}

// MarkReturn is called by the evaluation's own goroutine the moment evaluation returns:
// readers that are open right now were not "closed by the time evaluation returns".
// Only meaningful (and only recorded) when Close calls are under the scheduler.
func (d *Daemon) MarkReturn() {
	d.mu.Lock()
	defer d.mu.Unlock()
	if !d.variant.GateReads || d.noSleep {
		return
	}
	for _, s := range d.Streams {
		if !s.closed {
			s.Info.OpenAtReturn = true
		}
	}
}

// Read implements io.Reader.
func (s *SimStream) Read(p []byte) (int, error) {
	d := s.d
	if d.variant.GateReads && !d.noSleep {
		s.park(0)
	}
	d.mu.Lock()
	if s.closed {
		s.Info.ReadAfterClose++
		d.ev("read_after_close", s.Info.ID, s.off, 0)
		d.mu.Unlock()
		return 0, errors.New("verifsim: read on closed stream")
	}
	if d.cancelled(d.seq + 1) {
		s.Info.CancelObserved = true
		d.ev("read_cancelled", s.Info.ID, s.off, 0)
		d.mu.Unlock()
		return 0, context.Canceled
	}
	s.Info.Reads++
	if len(p) == 0 {
		d.ev("read", s.Info.ID, s.off, 0)
		d.mu.Unlock()
		return 0, nil
	}
	if ms, ok := s.slowAt[s.off]; ok {
		delete(s.slowAt, s.off)
		d.mu.Unlock()
		d.sleep(ms, FaultSlowRead)
		d.mu.Lock()
	}
	if s.failed {
		d.ev("read_err", s.Info.ID, s.off, 0)
		d.mu.Unlock()
		return 0, s.readErr
	}
	if s.eof {
		d.ev("read_eof", s.Info.ID, s.off, 0)
		d.mu.Unlock()
		return 0, s.eofErr
	}
	if s.off >= s.stop {
		switch s.stopKind {
		case FaultReadError:
			s.failed = true
			s.Info.ErrDelivered = true
			d.FaultsFired[FaultReadError]++
			d.ev("read_err", s.Info.ID, s.off, 0)
			d.mu.Unlock()
			return 0, s.readErr
		case FaultCut:
			d.FaultsFired[FaultCut]++
		}
		if s.follow && s.stopKind == "" {
			// A followed log never ends: the read blocks for good.
			d.ev("read_follow_block", s.Info.ID, s.off, 0)
			d.mu.Unlock()
			<-d.never
			return 0, io.EOF
		}
		s.eof = true
		s.Info.EOFDelivered = true
		d.ev("read_eof", s.Info.ID, s.off, 0)
		d.mu.Unlock()
		return 0, s.eofErr
	}
	maxn := s.stop - s.off
	if maxn > len(p) {
		maxn = len(p)
	}
	// Never run over a slow-read point.
	for off := range s.slowAt {
		if off > s.off && off-s.off < maxn {
			maxn = off - s.off
		}
	}
	n := maxn
	switch s.mode {
	case "whole":
	case "byte":
		n = 1
		// Inside a very large frame, byte-wise delivery resumes 64 bytes before the
		// next point of interest (frame structure or the stop position); the
		// millions of identical one-byte reads in between decide nothing.
		target := s.nextMark(s.off)
		if s.stop < target {
			target = s.stop
		}
		if far := target - s.off; far > 4096 {
			n = far - 64
			if n > maxn {
				n = maxn
			}
		}
	default:
		r := s.rng
		switch x := r.Intn(100); {
		case x < 30:
		case x < 45:
			n = 1
		case x < 55:
			n = []int{2, 7, 8, 9}[r.Intn(4)]
		case x < 75:
			n = s.nextMark(s.off) - s.off + r.Intn(3) - 1
		case x < 80:
			if s.zeroStreak < 3 {
				s.zeroStreak++
				s.Info.ZeroReads++
				d.ev("read", s.Info.ID, s.off, 0)
				d.mu.Unlock()
				return 0, nil
			}
		default:
			n = 1 + r.Intn(maxn)
		}
		if n < 1 {
			n = 1
		}
		if n > maxn {
			n = maxn
		}
	}
	s.zeroStreak = 0
	copy(p, s.layout.Data[s.off:s.off+n])
	if s.Info.BadFrameEnd > 0 && s.off < s.Info.BadFrameEnd && s.off+n >= s.Info.BadFrameEnd {
		d.FaultsFired[FaultFrame]++
	}
	s.off += n
	s.Info.Delivered = s.off
	var err error
	if s.off == s.stop && s.stopKind == FaultReadError && s.errWithData && n > 0 {
		// the io.Reader contract allows the last bytes and the error in one call
		s.failed = true
		s.Info.ErrDelivered = true
		s.Info.ErrWithData = true
		d.FaultsFired[FaultReadError]++
		err = s.readErr
	}
	if s.off == s.stop && s.stopKind != FaultReadError && !(s.follow && s.stopKind == "") {
		withEOF := false
		switch s.mode {
		case "whole", "byte":
		default:
			withEOF = s.rng.Bool(0.5)
		}
		if withEOF {
			if s.stopKind == FaultCut {
				d.FaultsFired[FaultCut]++
			}
			s.eof = true
			s.Info.EOFDelivered = true
			s.Info.DataWithEOF = true
			err = s.eofErr
		}
	}
	d.ev("read", s.Info.ID, s.off, n)
	d.mu.Unlock()
	return n, err
}

// Close implements io.Closer.
func (s *SimStream) Close() error {
	d := s.d
	if d.variant.GateReads && !d.noSleep {
		// A Close is a request like any other: it completes when the scheduler says so.
		// A Close issued by a goroutine nobody waits for therefore cannot slip in
		// between the end of the evaluation and the moment the readers are counted.
		s.park(1)
	}
	d.mu.Lock()
	defer d.mu.Unlock()
	s.closed = true
	s.Info.Closes++
	d.ev("close", s.Info.ID, s.Info.OpenIdx, s.Info.Closes)
	for _, f := range d.faults {
		if f.Kind == FaultCloseError && f.Container == s.Info.ID && (f.Open < 0 || f.Open == s.Info.OpenIdx) {
			d.FaultsFired[FaultCloseError]++
			s.Info.CloseErrDelivered = true
			return fmt.Errorf("close %s: %w", s.Info.ID, ErrInjected)
		}
	}
	return nil
}
