package verifsim

import (
	"fmt"
	"sort"
	"strconv"
	"strings"

	"github.com/tdakkota/docker-logql/internal/lokiapi"
)

// CEntry is one log entry of a canonical result.
type CEntry struct {
	T uint64 `json:"t"`
	V string `json:"v"`
}

// CStream is one stream of a canonical result.
type CStream struct {
	Labels  map[string]string `json:"labels"`
	Key     string            `json:"key"`
	Entries []CEntry          `json:"entries"`
	// TimeOrdered reports whether the entries came out in non-decreasing time.
	TimeOrdered bool `json:"time_ordered"`
}

// CPoint is one point of a canonical series.
type CPoint struct {
	T float64 `json:"t"`
	V string  `json:"v"`
}

// CSeries is one series of a canonical metric result.
type CSeries struct {
	Labels map[string]string `json:"labels"`
	Key    string            `json:"key"`
	Points []CPoint          `json:"points"`
}

// Canon is a query result with every order the language leaves open
// normalised: streams and series sorted by label rendering, entries of a
// stream sorted by (time, line).
type Canon struct {
	Type    string    `json:"type"`
	Streams []CStream `json:"streams,omitempty"`
	Series  []CSeries `json:"series,omitempty"`
	// RawStreamOrder lists stream keys in the order the engine returned them.
	RawStreamOrder []string `json:"-"`
}

func cloneLabels(m map[string]string) map[string]string {
	out := make(map[string]string, len(m))
	for k, v := range m {
		out[k] = v
	}
	return out
}

// Canonicalize normalises an engine result.
func Canonicalize(data lokiapi.QueryResponseData) *Canon {
	c := &Canon{Type: string(data.Type)}
	switch data.Type {
	case lokiapi.StreamsResultQueryResponseData:
		for _, st := range data.StreamsResult.Result {
			cs := CStream{Labels: cloneLabels(st.Stream.Value), TimeOrdered: true}
			cs.Key = RenderLabels(cs.Labels)
			for i, e := range st.Values {
				if i > 0 && e.T < st.Values[i-1].T {
					cs.TimeOrdered = false
				}
				cs.Entries = append(cs.Entries, CEntry{T: e.T, V: e.V})
			}
			sort.SliceStable(cs.Entries, func(i, j int) bool {
				a, b := cs.Entries[i], cs.Entries[j]
				if a.T != b.T {
					return a.T < b.T
				}
				return a.V < b.V
			})
			c.RawStreamOrder = append(c.RawStreamOrder, cs.Key)
			c.Streams = append(c.Streams, cs)
		}
		sort.SliceStable(c.Streams, func(i, j int) bool {
			if c.Streams[i].Key != c.Streams[j].Key {
				return c.Streams[i].Key < c.Streams[j].Key
			}
			return renderEntries(c.Streams[i].Entries) < renderEntries(c.Streams[j].Entries)
		})
	case lokiapi.MatrixResultQueryResponseData:
		for _, s := range data.MatrixResult.Result {
			cs := CSeries{Labels: cloneLabels(s.Metric.Value)}
			cs.Key = RenderLabels(cs.Labels)
			for _, p := range s.Values {
				cs.Points = append(cs.Points, CPoint{T: p.T, V: canonValue(p.V)})
			}
			c.Series = append(c.Series, cs)
		}
		sortSeries(c.Series)
	case lokiapi.VectorResultQueryResponseData:
		for _, s := range data.VectorResult.Result {
			cs := CSeries{Labels: cloneLabels(s.Metric.Value)}
			cs.Key = RenderLabels(cs.Labels)
			cs.Points = []CPoint{{T: s.Value.T, V: canonValue(s.Value.V)}}
			c.Series = append(c.Series, cs)
		}
		sortSeries(c.Series)
	case lokiapi.ScalarResultQueryResponseData:
		p := data.ScalarResult.Result
		c.Series = []CSeries{{Labels: map[string]string{}, Key: "{}", Points: []CPoint{{T: p.T, V: p.V}}}}
	}
	return c
}

// canonValue normalises the one value that has two spellings: negative zero
// equals zero (which of the two a min/max over mixed zeros yields is an accident
// of evaluation order that no property speaks about).
func canonValue(v string) string {
	if v == "-0" {
		return "0"
	}
	return v
}

func renderEntries(es []CEntry) string {
	var sb strings.Builder
	for _, e := range es {
		sb.WriteString(strconv.FormatUint(e.T, 10))
		sb.WriteByte(' ')
		sb.WriteString(strconv.Quote(e.V))
		sb.WriteByte(';')
	}
	return sb.String()
}

func renderPoints(ps []CPoint) string {
	var sb strings.Builder
	for _, p := range ps {
		sb.WriteString(strconv.FormatFloat(p.T, 'f', 3, 64))
		sb.WriteByte('=')
		sb.WriteString(p.V)
		sb.WriteByte(';')
	}
	return sb.String()
}

func sortSeries(ss []CSeries) {
	sort.SliceStable(ss, func(i, j int) bool {
		if ss[i].Key != ss[j].Key {
			return ss[i].Key < ss[j].Key
		}
		return renderPoints(ss[i].Points) < renderPoints(ss[j].Points)
	})
}

// Render renders the canonical result as text (used for equality and reports).
func (c *Canon) Render() string {
	if c == nil {
		return "<nil>"
	}
	var sb strings.Builder
	sb.WriteString(c.Type)
	sb.WriteByte('\n')
	for _, s := range c.Streams {
		fmt.Fprintf(&sb, "%s %s\n", s.Key, renderEntries(s.Entries))
	}
	for _, s := range c.Series {
		fmt.Fprintf(&sb, "%s %s\n", s.Key, renderPoints(s.Points))
	}
	return sb.String()
}

// Summary is a short description for reports.
func (c *Canon) Summary() string {
	if c == nil {
		return "<nil>"
	}
	n := 0
	for _, s := range c.Streams {
		n += len(s.Entries)
	}
	for _, s := range c.Series {
		n += len(s.Points)
	}
	return fmt.Sprintf("%s: %d streams, %d series, %d values", c.Type, len(c.Streams), len(c.Series), n)
}

func clip(s string, n int) string {
	if len(s) <= n {
		return s
	}
	return s[:n] + fmt.Sprintf("...(+%d bytes)", len(s)-n)
}
