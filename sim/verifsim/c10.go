package verifsim

import (
	"fmt"
	"sort"
	"strconv"
	"strings"
	"testing"
)

// C10 — a metric series is identified by its label set, nothing else.
type propC10 struct{}

func init() { register(propC10{}) }

func (propC10) ID() string { return "C10" }

var c10GroupVocab = []string{"container", "a", "ab", "abc", "b", "x", "y", "tier", "msg", "nosuch", "container_image", "container_state"}

// c10Spec is the structured form of the generated query.
type c10Spec struct {
	Sel     string `json:"sel"`
	RangeNs int64  `json:"range"`
	Kind    string `json:"kind"` // plain | vec | unwrap | binop | presence
	// RangeOp: presence kind only — a range operation over `| unwrap weight` whose values
	// are not modelled; only which label sets have a series at each step is judged.
	RangeOp string `json:"range_op,omitempty"`
	// Unwrap is the label the presence kind unwraps ("" = weight, a per-container constant;
	// "k" = a value that changes from line to line, extracted with | logfmt).
	Unwrap string `json:"unwrap,omitempty"`
	SelB   string `json:"sel_b,omitempty"`
	// Pipe is appended to every selector (labels derived from the line).
	Pipe string `json:"pipe,omitempty"`
	// PipeB, if set, replaces Pipe for the second operand of a binary operation.
	PipeB string `json:"pipe_b,omitempty"`
	// Outer is a second vector aggregation around a "vec" query.
	Outer   *c10Outer `json:"outer,omitempty"`
	BinOp   string    `json:"bin_op,omitempty"` // + and or unless
	VecOp   string    `json:"vec_op,omitempty"`
	Without bool      `json:"without,omitempty"`
	Labels  []string  `json:"labels,omitempty"`
	// Wrap puts the whole query inside an operator that must not change which series
	// exist nor their values: sort, sort_desc, or topk/bottomk with a k above any series count.
	Wrap string `json:"wrap,omitempty"`
}

// c10Outer is the outer vector aggregation of a nested query.
type c10Outer struct {
	VecOp   string   `json:"vec_op"`
	Without bool     `json:"without,omitempty"`
	Labels  []string `json:"labels"`
}

func (s c10Spec) Query() string {
	switch w := s.Wrap; w {
	case "sort", "sort_desc":
		s.Wrap = ""
		return w + "(" + s.Query() + ")"
	case "topk", "bottomk":
		s.Wrap = ""
		return w + "(100000, " + s.Query() + ")"
	}
	r := durText(s.RangeNs)
	s.Sel += s.Pipe
	if s.SelB != "" {
		if s.PipeB != "" {
			s.SelB += s.PipeB
		} else {
			s.SelB += s.Pipe
		}
	}
	grp := ""
	if len(s.Labels) > 0 {
		kw := "by"
		if s.Without {
			kw = "without"
		}
		grp = " " + kw + " (" + strings.Join(s.Labels, ", ") + ")"
	}
	switch s.Kind {
	case "vec":
		q := s.VecOp + grp + " (count_over_time(" + s.Sel + "[" + r + "]))"
		if s.Outer != nil {
			kw := "by"
			if s.Outer.Without {
				kw = "without"
			}
			q = s.Outer.VecOp + " " + kw + " (" + strings.Join(s.Outer.Labels, ", ") + ") (" + q + ")"
		}
		return q
	case "unwrap":
		q := "max_over_time(" + s.Sel + " | unwrap weight [" + r + "])" + grp
		if s.Outer != nil {
			kw := "by"
			if s.Outer.Without {
				kw = "without"
			}
			q = s.Outer.VecOp + " " + kw + " (" + strings.Join(s.Outer.Labels, ", ") + ") (" + q + ")"
		}
		return q
	case "presence":
		pre := s.RangeOp + "("
		if s.RangeOp == "quantile_over_time" {
			pre += "0.5, "
		}
		if s.Unwrap == "k" {
			return pre + s.Sel + " | logfmt | unwrap k [" + r + "])" + grp
		}
		return pre + s.Sel + " | unwrap weight [" + r + "])" + grp
	case "binop":
		return "sum" + grp + " (count_over_time(" + s.Sel + "[" + r + "])) " + s.BinOp + " sum" + grp + " (count_over_time(" + s.SelB + "[" + r + "]))"
	}
	return "count_over_time(" + s.Sel + "[" + r + "])"
}

func (propC10) Gen(r *Rng, run uint64, tier string) *Plan {
	p := &Plan{Harness: "engine", Tags: map[string]string{}, Config: "faultfree"}
	step := []int64{5, 10, 20}[r.Intn(3)] * sec
	nsteps := int64(1 + r.Intn(6))
	rng := []int64{5, 10, 20, 60}[r.Intn(4)] * sec
	start := BaseNs
	if r.Bool(0.03) {
		// a clock that was never set: the first windows begin before the Unix epoch
		start = int64(5+r.Intn(50)) * sec
		p.Tags["near_epoch"] = "1"
	}
	end := start + nsteps*step
	lo := start - rng + 1
	if lo < 1 {
		lo = 1
	}
	spec := WorldSpec{NMin: 1, NMax: 6, RecMin: 1, RecMax: 12, Lo: lo, Hi: end - 1,
		Msg: "const", AllNamed: true, NoHuge: true, OffSecond: true, Labels: "prefix"}
	if r.Bool(0.2) {
		spec.Msg = "token"
		if r.Bool(0.3) {
			// many distinct series
			spec.RecMax = 120
		}
	}
	pipe := ""
	structured := r.Bool(0.12)
	if structured {
		// lines of the form level=… k=<number> …: a numeric value per line
		spec.Msg = "structured"
	} else if r.Bool(0.2) {
		// Labels derived from the line: several records of one container then
		// differ only in labels whose names and values are prefixes of one another.
		spec.Msg = "kv"
		pipe = []string{" | logfmt | drop msg", " | logfmt | drop msg", " | logfmt"}[r.Intn(3)]
		if r.Bool(0.35) {
			// the same rendered value spelled with different JSON types
			spec.Msg = "jsonmix"
			pipe = []string{" | json | drop msg", " | json"}[r.Intn(2)]
		}
	}
	p.World = GenWorld(r.Sub("world"), spec)
	sel, _ := genSelection(r.Sub("sel"), &p.World)
	qs := c10Spec{Sel: sel, RangeNs: rng, Pipe: pipe, Kind: []string{"plain", "vec", "vec", "vec", "unwrap", "binop", "presence"}[r.Intn(7)]}
	if structured {
		qs.Kind = "presence"
	}
	if qs.Kind == "presence" {
		qs.RangeOp = Pick(r, []string{"quantile_over_time", "quantile_over_time", "avg_over_time", "stddev_over_time", "first_over_time", "last_over_time", "sum_over_time", "min_over_time"})
		if pipe != "" {
			qs.Kind, qs.RangeOp = "plain", ""
		} else if structured {
			// values that change from line to line within one series
			qs.Unwrap = "k"
		}
	}
	if qs.Kind == "unwrap" && pipe != "" {
		qs.Kind = "plain"
	}
	if qs.Kind == "binop" {
		qs.SelB, _ = genSelection(r.Sub("selB"), &p.World)
		qs.BinOp = []string{"+", "and", "or", "unless"}[r.Intn(4)]
	}
	if qs.Kind != "plain" {
		qs.VecOp = []string{"sum", "sum", "count", "max", "min"}[r.Intn(5)]
		if qs.Kind == "binop" {
			qs.VecOp = "sum"
		}
		qs.Without = r.Bool(0.4)
		seen := map[string]bool{}
		vocab := c10GroupVocab
		if pr := r.Sub("group-by-what-is-there"); pr.Bool(0.35) {
			// group by the Docker labels this world actually has (all of them, or some)
			pool := map[string]bool{}
			for i := range p.World.Containers {
				for k := range p.World.Containers[i].Labels {
					pool[SanitizeLabel(k)] = true
				}
			}
			if names := sortedKeys(pool); len(names) > 0 && len(names) <= 6 {
				vocab = names
				if pr.Bool(0.5) {
					for _, l := range names {
						if !seen[l] && !((qs.Kind == "unwrap" || qs.Kind == "presence") && l == "weight") {
							seen[l] = true
							qs.Labels = append(qs.Labels, l)
						}
					}
				}
			}
		}
		if spec.Msg == "jsonmix" {
			vocab = append(append([]string(nil), vocab...), "s", "s", "s", "t")
		}
		for k := 1 + r.Intn(3); k > 0; k-- {
			l := Pick(r, vocab)
			if !seen[l] && !((qs.Kind == "unwrap" || qs.Kind == "presence") && l == "weight") {
				seen[l] = true
				qs.Labels = append(qs.Labels, l)
			}
		}
		if qs.Kind == "binop" && len(qs.Labels) == 0 {
			qs.Labels = []string{"container"}
		}
		if qs.Kind == "binop" && spec.Msg == "jsonmix" && r.Bool(0.5) {
			// the same field extracted as a typed JSON value on one side and as a string on the other
			qs.PipeB = ` | json s="s" | drop msg`
		}
		if qs.Kind == "vec" && len(qs.Labels) > 0 && r.Bool(0.3) {
			// A second aggregation around the first. by over by is left out: the
			// engine unions the two lists, which is C11's business, not C10's.
			o := &c10Outer{VecOp: []string{"sum", "sum", "max", "count"}[r.Intn(4)], Without: true}
			if qs.Without && r.Bool(0.5) {
				o.Without = false
			}
			pool := append(append([]string(nil), vocab...), qs.Labels...)
			seenO := map[string]bool{}
			for k := 1 + r.Intn(2); k > 0; k-- {
				l := Pick(r, pool)
				if !seenO[l] {
					seenO[l] = true
					o.Labels = append(o.Labels, l)
				}
			}
			qs.Outer = o
		}
		if qs.Kind == "presence" {
			qs.Without = false
		}
		if qs.Kind == "unwrap" && qs.Without {
			// without(...) on an unwrap range: name the unwrapped label and the line
			// explicitly, so that whether an engine strips them by itself is immaterial.
			has := map[string]bool{}
			for _, l := range qs.Labels {
				has[l] = true
			}
			for _, l := range []string{"weight", "msg"} {
				if !has[l] {
					qs.Labels = append(qs.Labels, l)
				}
			}
		}
		if qs.Kind == "unwrap" && qs.Without && r.Bool(0.5) {
			// an outer aggregation of the same clause kind over the grouped range
			// (without over without removes the union; by over by is C11's)
			o := &c10Outer{VecOp: []string{"sum", "count", "max", "min"}[r.Intn(4)], Without: true}
			for k := 1 + r.Intn(2); k > 0; k-- {
				o.Labels = append(o.Labels, Pick(r, vocab))
			}
			qs.Outer = o
		}
	}
	if qs.Kind != "binop" && r.Sub("wrap").Bool(0.12) {
		qs.Wrap = Pick(r.Sub("wrap-op"), []string{"sort", "sort_desc", "topk", "bottomk"})
	}
	p.Query = qs.Query()
	p.Tags["spec"] = mustJSON(qs)
	p.Params = Params{Start: start, End: end, StepNs: step, Limit: -1}
	if r.Bool(0.25) {
		p.Params.Start, p.Params.End, p.Params.StepNs = end, end, 0
		p.Tags["instant"] = "1"
	}
	n := len(p.World.Containers)
	vr := r.Sub("variants")
	first := genVariant(vr.SubN("v", 0), []int{n}, -1, false, false)
	p.Variants = []Variant{first}
	for i := 1; i <= 3; i++ {
		p.Variants = append(p.Variants, genVariant(vr.SubN("v", uint64(i)), []int{n}, -1, true, false))
	}
	if wr := r.Sub("warmup"); wr.Bool(0.25) {
		// A long-lived Engine: in some variants the engine that answers has evaluated this
		// query, or an ungrouped count over the same selection, before. Series identity
		// must not depend on what earlier evaluations grouped by.
		for i := 1; i < len(p.Variants); i++ {
			if !wr.Bool(0.6) {
				continue
			}
			p.Variants[i].Warmup = 1 + wr.Intn(2)
			if wr.Bool(0.3) {
				// a sibling over the same selection: ungrouped, or grouped at the range by other labels
				p.Variants[i].WarmupQuery = Pick(wr, []string{
					"count_over_time(" + qs.Sel + " [30s])",
					"max_over_time(" + qs.Sel + " | unwrap weight [30s]) by (container, tier)",
					"sum without (msg, tier) (count_over_time(" + qs.Sel + " [30s]))",
				})
			}
		}
		p.Tags["warmup"] = "1"
	}
	return p
}

func (propC10) Expand(t *testing.T, p *Plan) []*Plan { return []*Plan{p} }

func project(labels map[string]string, spec c10Spec) map[string]string {
	if spec.Kind == "plain" || len(spec.Labels) == 0 {
		return cloneLabels(labels)
	}
	return projectBy(labels, spec.Without, spec.Labels)
}

func projectBy(labels map[string]string, without bool, names []string) map[string]string {
	in := map[string]bool{}
	for _, l := range names {
		in[l] = true
	}
	out := map[string]string{}
	for k, v := range labels {
		if in[k] != without {
			out[k] = v
		}
	}
	return out
}

type c10Val struct {
	labels map[string]string
	v      float64
}

// c10Side computes, from the log path's view of the same samples, the vector
// the query (or one operand of a binary operation) must produce at every step.
func c10Side(t *testing.T, p *Plan, spec c10Spec, sel string, pipe string, steps []int64, st *Stats, dropEmpty bool) (map[int64]map[string]c10Val, int, map[int64]int, *Violation) {
	// Reference partition: the same world through the log path, which keys
	// streams by a sorted, quoted rendering of the label set.
	ref := *p
	ref.Query = sel + pipe
	ref.Params = Params{Start: p.Params.Start - spec.RangeNs - sec, End: p.Params.End, StepNs: sec, Limit: -1}
	if ref.Params.Start == ref.Params.End {
		ref.Params.End++
	}
	ref.Variants = []Variant{{FragMode: "whole"}}
	ro := Exec(t, &ref, 0, ExecOpts{})
	checkHarnessLimit(ro)
	if st != nil {
		st.NoteOutcome(ro)
	}
	if ro.Bad() || ro.Failed || ro.Result == nil || ro.Result.Type != "streams" {
		return nil, 0, nil, &Violation{Property: "C10", Clause: "C10(reference-run)", Expected: "the log query " + sel + " succeeds", Observed: ro.ErrClass() + " " + clip(ro.ErrText+ro.Panic, 300)}
	}
	type ent struct {
		labels map[string]string
		ts     int64
	}
	var ents []ent
	for _, s := range ro.Result.Streams {
		labels := s.Labels
		if dropEmpty {
			// the other accepted reading: an empty label is the same as no label
			labels = map[string]string{}
			for k, v := range s.Labels {
				if v != "" {
					labels[k] = v
				}
			}
		}
		for _, e := range s.Entries {
			ents = append(ents, ent{labels, int64(e.T)})
		}
	}
	type innerT struct {
		labels map[string]string
		n      int
		max    float64
		has    bool
	}
	out := map[int64]map[string]c10Val{}
	totals := map[int64]int{}
	for _, T := range steps {
		inner := map[string]*innerT{}
		for _, e := range ents {
			if !(e.ts > T-spec.RangeNs && e.ts <= T) {
				continue
			}
			if e.ts == T-spec.RangeNs || e.ts == T {
				panic("verifsim: C10 workload hit a window edge")
			}
			lbl := e.labels
			if spec.Kind == "unwrap" || spec.Kind == "presence" {
				ul := "weight"
				if spec.Unwrap != "" {
					ul = spec.Unwrap
				}
				w, ok := e.labels[ul]
				if !ok {
					continue
				}
				lbl = project(e.labels, spec)
				k := RenderLabels(lbl)
				in := inner[k]
				if in == nil {
					in = &innerT{labels: lbl}
					inner[k] = in
				}
				f, _ := strconv.ParseFloat(w, 64)
				if !in.has || f > in.max {
					in.max, in.has = f, true
				}
				in.n++
				totals[T]++
				continue
			}
			k := RenderLabels(lbl)
			in := inner[k]
			if in == nil {
				in = &innerT{labels: lbl}
				inner[k] = in
			}
			in.n++
			totals[T]++
		}
		vec := map[string]c10Val{}
		switch spec.Kind {
		case "plain", "unwrap", "presence":
			for k, in := range inner {
				v := float64(in.n)
				if spec.Kind == "unwrap" {
					v = in.max
				}
				if spec.Kind == "presence" {
					v = 0 // values are not modelled
				}
				vec[k] = c10Val{in.labels, v}
			}
		case "vec", "binop":
			type grp struct {
				labels             map[string]string
				sum, cnt, max, min float64
			}
			groups := map[string]*grp{}
			for _, k := range sortedKeys(inner) {
				in := inner[k]
				pl := project(in.labels, spec)
				gk := RenderLabels(pl)
				g := groups[gk]
				v := float64(in.n)
				if g == nil {
					g = &grp{labels: pl, max: v, min: v}
					groups[gk] = g
				}
				g.sum += v
				g.cnt++
				if v > g.max {
					g.max = v
				}
				if v < g.min {
					g.min = v
				}
			}
			for gk, g := range groups {
				vec[gk] = c10Val{g.labels, map[string]float64{"sum": g.sum, "count": g.cnt, "max": g.max, "min": g.min}[spec.VecOp]}
			}
		}
		if spec.Outer != nil && (spec.Kind == "vec" || spec.Kind == "unwrap") {
			type grp struct {
				labels             map[string]string
				sum, cnt, max, min float64
			}
			{
				outer := map[string]*grp{}
				for _, k := range sortedKeys(vec) {
					iv := vec[k]
					pl := projectBy(iv.labels, spec.Outer.Without, spec.Outer.Labels)
					gk := RenderLabels(pl)
					g := outer[gk]
					if g == nil {
						g = &grp{labels: pl, max: iv.v, min: iv.v}
						outer[gk] = g
					}
					g.sum += iv.v
					g.cnt++
					if iv.v > g.max {
						g.max = iv.v
					}
					if iv.v < g.min {
						g.min = iv.v
					}
				}
				vec = map[string]c10Val{}
				for gk, g := range outer {
					vec[gk] = c10Val{g.labels, map[string]float64{"sum": g.sum, "count": g.cnt, "max": g.max, "min": g.min}[spec.Outer.VecOp]}
				}
			}
		}
		out[T] = vec
	}
	return out, len(ents), totals, nil
}

func fmtVal(v float64) string { return strconv.FormatFloat(v, 'f', -1, 64) }

func (propC10) Check(t *testing.T, p *Plan, st *Stats) *Violation {
	var spec c10Spec
	mustUnJSON(p.Tags["spec"], &spec)
	viol := func(vi int, clause, exp, obs string) *Violation {
		return &Violation{Property: "C10", Clause: clause, Expected: exp, Observed: obs, Detail: fmt.Sprintf("variant %d, query %s", vi, p.Query)}
	}
	if !parses(p.Query) {
		if st != nil {
			st.Skipped++
		}
		return nil
	}
	step := p.Params.StepNs
	var steps []int64
	if p.Tags["instant"] == "1" || step == 0 {
		steps = []int64{p.Params.Start}
	} else {
		for T := p.Params.Start; T <= p.Params.End; T += step {
			steps = append(steps, T)
		}
	}
	type series struct {
		labels map[string]string
		points []CPoint
	}
	// expected computes what the query must return, under one of the two
	// accepted readings of an empty-valued label (a label of its own, or no label).
	expected := func(dropEmpty bool) (*Canon, map[int64]int, int, int, *Violation) {
		totals := map[int64]int{}
		nEnts := 0
		exp := map[string]*series{}
		emit := func(T int64, vec map[string]c10Val) {
			tsec := float64(T/1_000_000) / 1000
			for _, k := range sortedKeys(vec) {
				s := exp[k]
				if s == nil {
					s = &series{labels: vec[k].labels}
					exp[k] = s
				}
				s.points = append(s.points, CPoint{T: tsec, V: fmtVal(vec[k].v)})
			}
		}
		pipeA := spec.Pipe
		if spec.Unwrap == "k" {
			pipeA = " | logfmt"
		}
		left, n1, tot1, v := c10Side(t, p, spec, spec.Sel, pipeA, steps, st, dropEmpty)
		if v != nil {
			return nil, nil, 0, 0, v
		}
		nEnts, totals = n1, tot1
		if spec.Kind == "binop" {
			pipeB := spec.Pipe
			if spec.PipeB != "" {
				pipeB = spec.PipeB
			}
			right, n2, _, v := c10Side(t, p, spec, spec.SelB, pipeB, steps, st, dropEmpty)
			if v != nil {
				return nil, nil, 0, 0, v
			}
			nEnts += n2
			for _, T := range steps {
				l, r := left[T], right[T]
				out := map[string]c10Val{}
				switch spec.BinOp {
				case "+":
					for k, lv := range l {
						if rv, ok := r[k]; ok {
							out[k] = c10Val{lv.labels, lv.v + rv.v}
						}
					}
				case "and":
					for k, lv := range l {
						if _, ok := r[k]; ok {
							out[k] = lv
						}
					}
				case "unless":
					for k, lv := range l {
						if _, ok := r[k]; !ok {
							out[k] = lv
						}
					}
				case "or":
					for k, lv := range l {
						out[k] = lv
					}
					for k, rv := range r {
						if _, ok := l[k]; !ok {
							out[k] = rv
						}
					}
				}
				emit(T, out)
			}
		} else {
			for _, T := range steps {
				emit(T, left[T])
			}
		}
		var expSeries []CSeries
		for _, k := range sortedKeys(exp) {
			expSeries = append(expSeries, CSeries{Labels: exp[k].labels, Key: k, Points: exp[k].points})
		}
		return &Canon{Series: expSeries}, totals, nEnts, len(expSeries), nil
	}
	expCanon, totals, nEnts, nExp, v := expected(false)
	if v != nil {
		return v
	}
	var expCanonB *Canon
	var firstRender string
	for vi := range p.Variants {
		o := Exec(t, p, vi, ExecOpts{})
		checkHarnessLimit(o)
		if st != nil {
			st.NoteOutcome(o)
			st.ProbeIf(p.Variants[vi].MapSeed != 0, "nonidentity_map_order")
			st.ProbeIf(p.Variants[vi].Warmup > 0 && o.WarmupOpens > 0, "engine_reused_after_earlier_evaluations")
		}
		if o.Panic != "" {
			return viol(vi, "C10(panic)", "no panic", clip(o.Panic, 600))
		}
		if o.Hang {
			return viol(vi, "C10(hang)", "evaluation returns", "never returned")
		}
		if o.Failed {
			return viol(vi, "C10(no-error)", "nil error", clip(o.ErrText, 300))
		}
		got := o.Result
		// (1) no two series with the same label set.
		for i := 1; i < len(got.Series); i++ {
			if got.Series[i].Key == got.Series[i-1].Key {
				n := 0
				for _, s := range got.Series {
					if s.Key == got.Series[i].Key {
						n++
					}
				}
				return viol(vi, "C10(1:duplicate-series)", "at most one series per label set",
					fmt.Sprintf("%d series carry %s (result has %d series, expected %d)", n, clip(got.Series[i].Key, 300), len(got.Series), nExp))
			}
		}
		// (2) conservation of per-step totals (where the operator conserves them).
		if spec.Kind == "plain" || spec.Kind == "vec" && spec.VecOp == "sum" && (spec.Outer == nil || spec.Outer.VecOp == "sum") {
			sums := map[float64]float64{}
			for _, s := range got.Series {
				for _, pt := range s.Points {
					f, _ := strconv.ParseFloat(pt.V, 64)
					sums[pt.T] += f
				}
			}
			for _, T := range steps {
				tsec := float64(T/1_000_000) / 1000
				if int(sums[tsec]) != totals[T] {
					return viol(vi, "C10(2:totals-conserved)", fmt.Sprintf("counts at step %v add up to %d samples in the window", tsec, totals[T]), fmt.Sprintf("%v", sums[tsec]))
				}
			}
		}
		// (3) the series are exactly the distinct (projected) label sets, with their values.
		if spec.Kind == "presence" {
			// only which label sets have a point at which step is judged
			blank := make([]CSeries, len(got.Series))
			for i, gs := range got.Series {
				blank[i] = CSeries{Labels: gs.Labels, Key: gs.Key}
				for _, pt := range gs.Points {
					blank[i].Points = append(blank[i].Points, CPoint{T: pt.T, V: "0"})
				}
			}
			got = &Canon{Type: got.Type, Series: blank}
		}
		gotR := (&Canon{Series: got.Series}).Render()
		expR := expCanon.Render()
		if gotR != expR {
			// The other accepted reading: empty-valued labels are no labels at all,
			// consistently (series identity and reported label set alike).
			if expCanonB == nil {
				var vb *Violation
				expCanonB, _, _, _, vb = expected(true)
				if vb != nil {
					return vb
				}
			}
			if gotR == expCanonB.Render() {
				if st != nil {
					st.Probe("accepted_under_empty_equals_absent_reading")
				}
				if vi == 0 {
					firstRender = gotR
				} else if gotR != firstRender {
					return viol(vi, "C10(4:map-order-independence)", clip(firstRender, 400), clip(gotR, 400))
				}
				continue
			}
			return viol(vi, "C10(3:partition)", "series = distinct label sets of the samples: "+clip(expR, 600), clip(gotR, 600))
		}
		// (4) identical across map orders.
		if vi == 0 {
			firstRender = gotR
		} else if gotR != firstRender {
			return viol(vi, "C10(4:map-order-independence)", clip(firstRender, 400), clip(gotR, 400))
		}
		if st != nil && vi == 0 {
			multi := false
			for _, s := range expCanon.Series {
				for _, pt := range s.Points {
					if pt.V != "1" {
						multi = true
					}
				}
			}
			st.ProbeIf(multi, "several_samples_share_a_label_set")
			st.ProbeIf(nExp >= 2, "several_series")
			st.ProbeIf(nExp == 0, "empty_result")
			if nEnts >= 2 {
				lbls := append([]string(nil), spec.Labels...)
				sort.Strings(lbls)
				st.Probe("kind_" + spec.Kind + spec.BinOp)
				st.ProbeIf(spec.Pipe != "", "labels_derived_from_line")
				st.ProbeIf(p.Tags["near_epoch"] == "1", "windows_begin_before_the_epoch")
				st.ProbeIf(spec.Outer != nil, "nested_vector_aggregation")
				st.ProbeIf(spec.Wrap != "", "wrapped_in_"+spec.Wrap)
				st.ProbeIf(spec.PipeB != "", "typed_vs_string_json_operands")
				st.Signature(fmt.Sprintf("%s%s|%s|%v|%v|inst=%s|series=%d|ents=%d", spec.Kind, spec.BinOp, spec.VecOp, spec.Without, lbls, p.Tags["instant"], nExp, nEnts))
			}
		}
	}
	return nil
}

// ShrinkCandidates: simpler query shapes.
func (propC10) ShrinkCandidates(p *Plan) []*Plan {
	var spec c10Spec
	mustUnJSON(p.Tags["spec"], &spec)
	var out []*Plan
	mk := func(s c10Spec) {
		c := p.Clone()
		c.Query = s.Query()
		c.Tags["spec"] = mustJSON(s)
		out = append(out, c)
	}
	if spec.Kind != "plain" {
		s := spec
		s.Kind, s.VecOp, s.Labels, s.Without = "plain", "", nil, false
		mk(s)
	}
	if spec.Sel != "{}" {
		s := spec
		s.Sel = "{}"
		mk(s)
	}
	if spec.Pipe != "" {
		s := spec
		s.Pipe, s.PipeB = "", ""
		mk(s)
	}
	if spec.Outer != nil {
		s := spec
		s.Outer = nil
		mk(s)
	}
	for i := range spec.Labels {
		if len(spec.Labels) > 1 {
			s := spec
			s.Labels = append(append([]string(nil), spec.Labels[:i]...), spec.Labels[i+1:]...)
			mk(s)
		}
	}
	if spec.Kind == "vec" && spec.VecOp != "sum" {
		s := spec
		s.VecOp = "sum"
		mk(s)
	}
	return out
}
