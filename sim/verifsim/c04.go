package verifsim

import (
	"fmt"
	"testing"
)

// C04 — multi-container merge conserves records and time order.
type propC04 struct{}

func init() { register(propC04{}) }

func (propC04) ID() string { return "C04" }

func factorial(n int) int {
	f := 1
	for i := 2; i <= n; i++ {
		f *= i
	}
	return f
}

func (propC04) Gen(r *Rng, run uint64, tier string) *Plan {
	p := &Plan{Harness: "selectlogs", Tags: map[string]string{}, Config: "sorted"}
	if r.Bool(0.35) {
		p.Harness = "engine"
	}
	spec := WorldSpec{NMin: 0, NMax: 8, RecMin: 0, RecMax: 12, Lo: BaseNs, Hi: BaseNs + 20*sec, Grid: sec, TieProb: 0.6,
		Msg: "token", AllNamed: r.Bool(0.5), NoHuge: true}
	if r.Bool(0.15) {
		// timestamps of different containers a few nanoseconds apart
		spec.NearTie = 0.5
	}
	if r.Bool(0.15) {
		// a container that writes the very same line twice within one clock tick
		spec.DupRec = 0.2
	}
	switch x := r.Intn(100); {
	case x < 10:
		spec.NMax = 2
	case x < 55:
		spec.NMin, spec.NMax = 2, 5
	}
	if r.Bool(0.3) {
		spec.Msg = "rich"
	}
	switch x := r.Intn(100); {
	case x < 5:
		// many sources
		spec.NMin, spec.NMax, spec.RecMax = 9, 24, 6
	case x < 7:
		spec.NMin, spec.NMax, spec.RecMax = 25, 70, 4
	case x < 8:
		spec.NMin, spec.NMax, spec.RecMax = 100, 140, 2
		if r.Bool(0.4) {
			// more sources than fit an 8-bit index
			spec.NMin, spec.NMax = 257, 300
			if r.Bool(0.3) {
				// beyond any plausible worker-pool size
				spec.NMin, spec.NMax = 513, 560
				if r.Bool(0.25) {
					// more containers than a process may keep files open
					spec.NMin, spec.NMax, spec.RecMax, spec.DupTS = 1001, 1100, 6, 0.5
				}
			}
		}
	case x < 12:
		// long logs, deep heap refills
		spec.RecMax, spec.Hi = 150, BaseNs+120*sec
	case x < 15:
		// large frames on the merge path
		spec.NoHuge, spec.Msg, spec.RecMax = false, "rich", 6
	}
	if r.Bool(0.25) {
		spec.Unsorted = true
		p.Config = "unsorted"
	}
	if r.Bool(0.2) {
		spec.Grid, spec.TieProb = sec/2, 0.9
	}
	p.World = GenWorld(r.Sub("world"), spec)
	p.Query = "{}"
	if p.Harness == "selectlogs" && len(p.World.Containers) >= 3 && r.Bool(0.2) {
		// the same querier served a narrower selection before
		var sub []*Container
		for i := range p.World.Containers {
			if c := &p.World.Containers[i]; c.Name() != "" && r.Bool(0.45) {
				sub = append(sub, c)
			}
		}
		if len(sub) > 0 {
			p.Tags["pre_query"] = nameSelector(sub)
			p.Tags["pre_n"] = fmt.Sprint(len(sub))
		}
	}
	// Mostly the window covers everything; sometimes it cuts into the log.
	p.Params = Params{Start: BaseNs - 3*sec, End: BaseNs + 125*sec, StepNs: sec, Limit: -1}
	if r.Bool(0.25) {
		p.Params.Start = BaseNs + int64(r.Intn(8))*sec + int64(r.Intn(1000))*1_000_000
		p.Params.End = BaseNs + int64(10+r.Intn(12))*sec + int64(r.Intn(1000))*1_000_000
	}
	if len(p.World.Containers) >= 2 && r.Bool(0.04) {
		// one log starts exactly at the Unix epoch: timestamp zero is a value, not "unset"
		ci := r.Intn(len(p.World.Containers))
		if log := p.World.Containers[ci].Log; len(log) > 0 {
			log[0].TS = 0
			p.Params.Start = 0
			p.Tags["epoch_record"] = "1"
		}
	}
	n := len(p.World.Containers)
	k := 4
	exhaustive := false
	if tier == "thorough" {
		k = 6
		if n >= 2 && n <= 5 && r.Bool(0.35) {
			k = factorial(n)
			exhaustive = true
		}
	} else if n >= 2 && n <= 3 {
		k = factorial(n)
		exhaustive = true
	}
	base := int64(run)
	vr := r.Sub("variants")
	for i := 0; i < k; i++ {
		var v Variant
		if exhaustive || i%2 == 0 {
			v = genVariant(vr.SubN("v", uint64(i)), []int{n}, base+int64(i), false, true)
		} else {
			v = genVariant(vr.SubN("v", uint64(i)), []int{n}, -1, false, true)
		}
		if p.Tags["pre_query"] != "" {
			// the earlier selection is a batch of its own, released in a random order
			var pn int
			fmt.Sscan(p.Tags["pre_n"], &pn)
			v.Batches = append([][]int{vr.SubN("pre", uint64(i)).Perm(pn)}, v.Batches...)
		}
		p.Variants = append(p.Variants, v)
	}
	if exhaustive {
		p.Tags["exhaustive_orders"] = fmt.Sprint(n)
	}
	return p
}

func (propC04) Expand(t *testing.T, p *Plan) []*Plan { return []*Plan{p} }

type recKey struct {
	cid  string
	ts   uint64
	body string
}

func (propC04) Check(t *testing.T, p *Plan, st *Stats) *Violation {
	viol := func(vi int, clause, exp, obs string) *Violation {
		return &Violation{Property: "C04", Clause: clause, Expected: exp, Observed: obs, Detail: fmt.Sprintf("variant %d harness=%s", vi, p.Harness)}
	}
	var first *Outcome
	var firstSeq []recKey
	for vi := range p.Variants {
		o := Exec(t, p, vi, ExecOpts{})
		checkHarnessLimit(o)
		if st != nil {
			st.NoteOutcome(o)
		}
		if o.Panic != "" {
			return viol(vi, "C04(panic)", "no panic", clip(o.Panic, 600))
		}
		if o.Hang {
			return viol(vi, "C04(hang)", "evaluation returns", "evaluation never returned")
		}
		if o.Failed {
			return viol(vi, "C04(e:no-error)", "nil error", clip(o.ErrText, 300))
		}
		// Expected records per opened container: what the daemon delivered.
		type src struct {
			id   string
			recs []recKey
		}
		var srcs []src
		want := map[recKey]int{}
		allSorted := true
		total := 0
		opened := map[string]bool{}
		lastPhase := 0
		if p.Tags["pre_query"] != "" {
			lastPhase = 1
		}
		for _, oc := range o.Opens {
			if oc.Phase != lastPhase {
				continue
			}
			if opened[oc.ID] {
				return viol(vi, "C04(a:conservation)", "one log request per selected container", "container "+oc.ID+" requested twice")
			}
			opened[oc.ID] = true
			c := p.World.Find(oc.ID)
			if c == nil {
				return viol(vi, "C04(a:conservation)", "requests for listed containers only", "request for unknown container "+oc.ID)
			}
			l, err := BuildStream(c, oc.Opts, nil)
			if err != nil {
				return viol(vi, "C04(a:conservation)", "well-formed since/until", err.Error())
			}
			s := src{id: oc.ID}
			for i, ri := range l.Recs {
				r := c.Log[ri]
				k := recKey{oc.ID, uint64(r.TS), string(r.Msg)}
				s.recs = append(s.recs, k)
				want[k]++
				total++
				if i > 0 && r.TS < c.Log[l.Recs[i-1]].TS {
					allSorted = false
				}
			}
			srcs = append(srcs, s)
		}
		var seq []recKey
		switch p.Harness {
		case "selectlogs":
			for _, r := range o.Records {
				seq = append(seq, recKey{r.ContainerID, r.TS, r.Body})
			}
		case "engine":
			if o.Result == nil || o.Result.Type != "streams" {
				return viol(vi, "C04(a:conservation)", "a streams result", o.Result.Summary())
			}
			for _, s := range o.Result.Streams {
				for _, e := range s.Entries {
					seq = append(seq, recKey{s.Labels["container_id"], e.T, e.V})
				}
			}
		}
		got := map[recKey]int{}
		for _, k := range seq {
			got[k]++
		}
		// Records the daemon delivered although they lie outside the query's own
		// [start, end] (it is asked for whole seconds) may be filtered out by the
		// client or passed on: both are fine. Records inside must all be there.
		for si := range srcs {
			kept := srcs[si].recs[:0:0]
			for _, k := range srcs[si].recs {
				outside := int64(k.ts) < p.Params.Start || int64(k.ts) > p.Params.End
				if outside && got[k] == 0 {
					total -= want[k]
					delete(want, k)
					continue
				}
				kept = append(kept, k)
			}
			srcs[si].recs = kept
		}
		for _, s := range srcs {
			for _, k := range s.recs {
				if got[k] != want[k] {
					return viol(vi, "C04(a:conservation)", fmt.Sprintf("record %s ts=%d %q x%d (of %d records)", k.cid, k.ts, clip(k.body, 40), want[k], total),
						fmt.Sprintf("x%d (emitted %d records)", got[k], len(seq)))
				}
			}
		}
		if len(seq) != total {
			for _, k := range seq {
				if want[k] == 0 {
					return viol(vi, "C04(a:conservation)", fmt.Sprintf("only records of the selected containers (%d)", total),
						fmt.Sprintf("extra record %s ts=%d %q (emitted %d)", k.cid, k.ts, clip(k.body, 40), len(seq)))
				}
			}
			return viol(vi, "C04(a:conservation)", fmt.Sprintf("%d records", total), fmt.Sprintf("%d records", len(seq)))
		}
		if p.Harness == "selectlogs" {
			// (b) per-source order.
			pos := map[string]int{}
			bySrc := map[string][]recKey{}
			for _, s := range srcs {
				bySrc[s.id] = s.recs
			}
			for i, k := range seq {
				exp := bySrc[k.cid]
				j := pos[k.cid]
				if j >= len(exp) || exp[j] != k {
					return viol(vi, "C04(b:source-order)", fmt.Sprintf("container %s keeps its own order", k.cid),
						fmt.Sprintf("position %d of the merged stream carries %q out of turn", i, clip(k.body, 40)))
				}
				pos[k.cid] = j + 1
			}
			// (c) global time order.
			if allSorted {
				for i := 1; i < len(seq); i++ {
					if seq[i].ts < seq[i-1].ts {
						return viol(vi, "C04(c:time-order)", "non-decreasing timestamps", fmt.Sprintf("position %d: %d after %d", i, seq[i].ts, seq[i-1].ts))
					}
				}
			}
		}
		// (d) independence of the completion order.
		if first == nil {
			first = o
			firstSeq = seq
		} else {
			same := len(seq) == len(firstSeq)
			at := -1
			for i := 0; same && i < len(seq); i++ {
				if seq[i] != firstSeq[i] {
					same = false
					at = i
				}
			}
			if !same {
				return viol(vi, "C04(d:schedule-independence)", fmt.Sprintf("the same merged result as under release order %v", first.BatchPerms),
					fmt.Sprintf("under release order %v the result differs (first difference at position %d)", o.BatchPerms, at))
			}
		}
		if st != nil && vi == 0 {
			n := len(o.Opens)
			st.ProbeIf(n == 0, "zero_containers")
			st.ProbeIf(n == 1, "one_container")
			st.ProbeIf(n >= 2, "many_containers")
			tieAcross, tieWithin, empty := false, false, false
			seenTS := map[uint64]string{}
			for _, s := range srcs {
				if len(s.recs) == 0 {
					empty = true
				}
				for i, k := range s.recs {
					if i > 0 && s.recs[i-1].ts == k.ts {
						tieWithin = true
					}
					if other, ok := seenTS[k.ts]; ok && other != k.cid {
						tieAcross = true
					}
					seenTS[k.ts] = k.cid
				}
			}
			st.ProbeIf(tieAcross, "tie_across_containers")
			st.ProbeIf(tieWithin, "tie_within_container")
			st.ProbeIf(empty && n >= 2, "empty_source_in_merge")
			st.ProbeIf(!allSorted, "unsorted_source")
			st.ProbeIf(p.Tags["pre_query"] != "", "querier_reused_after_narrower_selection")
			st.ProbeIf(p.Tags["epoch_record"] == "1", "record_at_unix_epoch")
			st.ProbeIf(n > 512, "more_than_512_containers")
			st.ProbeIf(p.Tags["exhaustive_orders"] != "", "all_orders_walked")
		}
		if st != nil && len(o.Opens) >= 2 {
			st.Signature(fmt.Sprintf("%s|%d|%d|%v|%v", p.Harness, len(o.Opens), total, allSorted, o.BatchPerms))
		}
	}
	return nil
}
