package verifsim

import (
	"os"
	"strings"
	"testing"
	"time"
)

// Shrink minimises a failing concrete plan: it applies simplifying
// transformations greedily, to a fixpoint, keeping a candidate only if
// re-executing it yields a violation of the same class. It never trusts a
// run it did not repeat.
func Shrink(t *testing.T, P Property, p *Plan, v *Violation) *Plan {
	if os.Getenv("VERIF_NOSHRINK") == "1" {
		return p
	}
	class := v.Class()
	best := p.Clone()
	best.Violation = v
	budget := 4000
	deadline := time.Now().Add(40 * time.Second)
	// expired: no candidate is executed any more; loops stop producing them
	expired := func() bool { return budget <= 0 || time.Now().After(deadline) }
	try := func(c *Plan) bool {
		if expired() {
			return false
		}
		budget--
		c.Violation = nil
		c.EventLog = nil
		var nv *Violation
		func() {
			defer func() {
				if r := recover(); r != nil {
					if _, ok := r.(HarnessLimit); ok {
						nv = nil
						return
					}
					panic(r)
				}
			}()
			nv = P.Check(t, c, nil)
		}()
		if nv != nil && nv.Class() == class {
			c.Violation = nv
			best = c
			return true
		}
		return false
	}

	for pass := 0; pass < 6 && !expired(); pass++ {
		progress := false

		// Property-specific simplifications (simpler query, ...).
		if sc, ok := P.(interface{ ShrinkCandidates(*Plan) []*Plan }); ok {
			for again := true; again; {
				again = false
				for _, c := range sc.ShrinkCandidates(best) {
					if expired() {
						break
					}
					if try(c) {
						progress, again = true, true
						break
					}
				}
			}
		}
		// Drop containers.
		for i := len(best.World.Containers) - 1; i >= 0; i-- {
			if expired() {
				break
			}
			if len(best.World.Containers) <= 1 && best.Harness == "parselog" {
				break
			}
			c := best.Clone()
			id := c.World.Containers[i].ID
			c.World.Containers = append(c.World.Containers[:i], c.World.Containers[i+1:]...)
			var fs []Fault
			for _, f := range c.Faults {
				if f.Container != id {
					fs = append(fs, f)
				}
			}
			c.Faults = fs
			if try(c) {
				progress = true
			}
		}
		// Drop faults.
		for i := len(best.Faults) - 1; i >= 0; i-- {
			if expired() {
				break
			}
			c := best.Clone()
			c.Faults = append(c.Faults[:i], c.Faults[i+1:]...)
			if try(c) {
				progress = true
			}
		}
		// Drop variants (keep at least one).
		for i := len(best.Variants) - 1; i >= 0 && len(best.Variants) > 1; i-- {
			if expired() {
				break
			}
			c := best.Clone()
			c.Variants = append(c.Variants[:i], c.Variants[i+1:]...)
			if try(c) {
				progress = true
			}
		}
		// Drop records: halves first, then one by one.
		for ci := range best.World.Containers {
			for chunk := len(best.World.Containers[ci].Log) / 2; chunk >= 1; chunk /= 2 {
				for start := 0; start < len(best.World.Containers[ci].Log); {
					if expired() {
						break
					}
					c := best.Clone()
					log := c.World.Containers[ci].Log
					end := start + chunk
					if end > len(log) {
						end = len(log)
					}
					c.World.Containers[ci].Log = append(log[:start:start], log[end:]...)
					if try(c) {
						progress = true
					} else {
						start += chunk
					}
				}
			}
		}
		// Drop Docker labels.
		for ci := range best.World.Containers {
			for _, k := range sortedKeys(best.World.Containers[ci].Labels) {
				if expired() {
					break
				}
				c := best.Clone()
				delete(c.World.Containers[ci].Labels, k)
				if try(c) {
					progress = true
				}
			}
		}
		// Shorten messages.
		for ci := range best.World.Containers {
			for ri := range best.World.Containers[ci].Log {
				if expired() {
					break
				}
				msg := best.World.Containers[ci].Log[ri].Msg
				if len(msg) <= 8 {
					continue
				}
				c := best.Clone()
				m := c.World.Containers[ci].Log[ri].Msg
				cut := 0
				for cut < len(m) && m[cut] != ' ' && cut < 12 {
					cut++
				}
				c.World.Containers[ci].Log[ri].Msg = m[:cut]
				if try(c) {
					progress = true
				}
			}
		}
		// Simplify each variant.
		for vi := range best.Variants {
			if expired() {
				break
			}
			v := best.Variants[vi]
			if v.FragMode != "whole" {
				c := best.Clone()
				c.Variants[vi].FragMode = "whole"
				c.Variants[vi].FragSeed = 0
				if try(c) {
					progress = true
				} else if v.FragMode != "byte" {
					c := best.Clone()
					c.Variants[vi].FragMode = "byte"
					c.Variants[vi].FragSeed = 0
					if try(c) {
						progress = true
					}
				}
			}
			if len(best.Variants[vi].Batches) > 0 {
				c := best.Clone()
				c.Variants[vi].Batches = nil
				if try(c) {
					progress = true
				}
			}
			if best.Variants[vi].GateReads {
				c := best.Clone()
				c.Variants[vi].GateReads, c.Variants[vi].SchedSeed = false, 0
				// (a plan that was put under the scheduler to make it replay stays there)
				if best.Tags["keep_gates"] != "1" && try(c) {
					progress = true
				} else if best.Variants[vi].SchedSeed != 1 {
					c := best.Clone()
					c.Variants[vi].SchedSeed = 1
					if try(c) {
						progress = true
					}
				}
			}
			if best.Variants[vi].Warmup > 0 {
				c := best.Clone()
				c.Variants[vi].Warmup, c.Variants[vi].WarmupQuery = 0, ""
				if try(c) {
					progress = true
				} else if best.Variants[vi].Warmup > 1 || best.Variants[vi].WarmupQuery != "" {
					c := best.Clone()
					c.Variants[vi].Warmup, c.Variants[vi].WarmupQuery = 1, ""
					if try(c) {
						progress = true
					}
				}
			}
			if len(best.Variants[vi].DelaysMs) > 0 {
				c := best.Clone()
				c.Variants[vi].DelaysMs = nil
				if try(c) {
					progress = true
				}
			}
			if best.Variants[vi].MapSeed != 0 {
				c := best.Clone()
				c.Variants[vi].MapSeed = 0
				if try(c) {
					progress = true
				} else if best.Variants[vi].MapSeed != 1 {
					c := best.Clone()
					c.Variants[vi].MapSeed = 1
					if try(c) {
						progress = true
					}
				}
			}
		}
		// Move cut / read-error offsets towards the start of their class.
		for fi := range best.Faults {
			if expired() {
				break
			}
			f := best.Faults[fi]
			if f.Kind != FaultCut && f.Kind != FaultReadError {
				continue
			}
			for _, cand := range []int{0, 8, f.Offset / 2, f.Offset - 1} {
				if expired() {
					break
				}
				if cand < 0 || cand >= best.Faults[fi].Offset {
					continue
				}
				c := best.Clone()
				c.Faults[fi].Offset = cand
				if try(c) {
					progress = true
					break
				}
			}
		}
		// Limit off.
		if best.Params.Limit > 0 {
			c := best.Clone()
			c.Params.Limit = -1
			if c.CLI != nil {
				var argv []string
				for _, a := range c.CLI.Argv {
					if !strings.HasPrefix(a, "--limit") {
						argv = append(argv, a)
					}
				}
				c.CLI.Argv = argv
			}
			if try(c) {
				progress = true
			}
		}
		if !progress {
			break
		}
	}
	return best
}
