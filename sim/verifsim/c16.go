package verifsim

import (
	"fmt"
	"strings"
	"testing"
	"time"
)

// C16 — time-range and step flags resolve as documented (clock facet: what
// reaches the daemon when the real command runs at a simulated instant).
type propC16 struct{}

func init() { register(propC16{}) }

func (propC16) ID() string { return "C16" }

var (
	lo2001  = time.Date(2001, 1, 1, 0, 0, 0, 0, time.UTC).UnixNano()
	hi2200c = time.Date(2199, 12, 31, 0, 0, 0, 0, time.UTC).UnixNano()
)

// c16Spec is the structured form of the generated command line.
type c16Spec struct {
	Now int64 `json:"now"`
	// Instants are kept in ns; HasX says whether the flag is present.
	HasStart bool   `json:"has_start"`
	Start    int64  `json:"start"`
	StartSp  string `json:"start_spelling"`
	HasEnd   bool   `json:"has_end"`
	End      int64  `json:"end"`
	EndSp    string `json:"end_spelling"`
	HasSince bool   `json:"has_since"`
	SinceNs  int64  `json:"since"`
	SinceTxt string `json:"since_text"`
	HasStep  bool   `json:"has_step"`
	StepTxt  string `json:"step_text"`
	// TinyStep: the explicit step is a positive number of seconds below or near one
	// nanosecond. Whether such a value is accepted is not judged; if it is, the step
	// must still be strictly positive, which shows at the daemon when start == end
	// (a zero step would make the query an instant query with a look-back window).
	TinyStep bool `json:"tiny_step,omitempty"`
	// Bad names the flag that carries a malformed value ("" = none).
	Bad    string `json:"bad,omitempty"`
	BadTxt string `json:"bad_text,omitempty"`
}

// spell renders instant ns in the given spelling. The instant must be
// representable: "sec" needs whole seconds, "frac" whole milliseconds.
func spell(r *Rng, ns int64, sp string) string {
	t := time.Unix(0, ns).UTC()
	switch sp {
	case "sec":
		return fmt.Sprint(ns / sec)
	case "nanos":
		return fmt.Sprint(ns)
	case "frac":
		ms := (ns % sec) / 1_000_000
		switch {
		case ms%100 == 0:
			return fmt.Sprintf("%d.%d", ns/sec, ms/100)
		case ms%10 == 0:
			return fmt.Sprintf("%d.%02d", ns/sec, ms/10)
		}
		return fmt.Sprintf("%d.%03d", ns/sec, ms)
	case "rfc":
		return t.Format(time.RFC3339Nano)
	case "rfc_zone":
		off := []int{-8 * 3600, -3*3600 - 1800, 3600, 5*3600 + 1800, 9 * 3600, 13 * 3600}[r.Intn(6)]
		return t.In(time.FixedZone("", off)).Format(time.RFC3339Nano)
	}
	panic("verifsim: bad spelling " + sp)
}

var c16Spellings = []string{"sec", "nanos", "frac", "rfc", "rfc_zone"}

// genInstant draws an instant near ref (or anywhere in 2001..2200) and a spelling that can express it.
func genInstant(r *Rng, ref int64) (int64, string) {
	var ns int64
	switch x := r.Intn(100); {
	case x < 55:
		ns = ref - 48*3600*sec + r.Int63n(96*3600*sec)
	case x < 62:
		// 2001-01-01 .. 2001-09-09: unix seconds still have nine digits
		ns = lo2001 + r.Int63n(int64(1_000_000_000)*sec-lo2001)
	case x < 66:
		// around the ten-digit boundary
		ns = int64(1_000_000_000)*sec - 5*sec + r.Int63n(10*sec)
	default:
		ns = lo2001 + r.Int63n(hi2200c-lo2001)
	}
	if ns < lo2001 {
		ns = lo2001 + r.Int63n(1000*sec)
	}
	if ns >= hi2200c {
		ns = hi2200c - 1 - r.Int63n(1000*sec)
	}
	sp := Pick(r, c16Spellings)
	switch sp {
	case "sec":
		ns -= ns % sec
	case "frac":
		ns -= ns % 1_000_000
	}
	return ns, sp
}

func genPromDuration(r *Rng) (int64, string) {
	units := []struct {
		u  string
		ns int64
	}{{"y", 365 * 24 * 3600 * sec}, {"w", 7 * 24 * 3600 * sec}, {"d", 24 * 3600 * sec}, {"h", 3600 * sec}, {"m", 60 * sec}, {"s", sec}, {"ms", 1_000_000}}
	if r.Bool(0.05) {
		return 0, "0s"
	}
	var total int64
	var sb strings.Builder
	first := r.Intn(len(units))
	n := 1 + r.Intn(2)
	for i := first; i < len(units) && n > 0; i++ {
		if i > first && r.Bool(0.5) {
			continue
		}
		v := int64(1 + r.Intn(59))
		if units[i].u == "w" {
			v = int64(1 + r.Intn(8))
		}
		if units[i].u == "y" {
			v = int64(1 + r.Intn(3))
		}
		total += v * units[i].ns
		fmt.Fprintf(&sb, "%d%s", v, units[i].u)
		n--
	}
	return total, sb.String()
}

func (s c16Spec) Argv(r *Rng) []string {
	argv := []string{"query", "--color=false"}
	add := func(name, val string) {
		if r.Bool(0.3) {
			argv = append(argv, "--"+name, val)
		} else {
			argv = append(argv, "--"+name+"="+val)
		}
	}
	val := func(flag, good string) string {
		if s.Bad == flag {
			return s.BadTxt
		}
		return good
	}
	if s.HasStart {
		add("start", val("start", spell(r, s.Start, s.StartSp)))
	}
	if s.HasEnd {
		add("end", val("end", spell(r, s.End, s.EndSp)))
	}
	if s.HasSince {
		add("since", val("since", s.SinceTxt))
	}
	if s.HasStep {
		if sv := val("step", s.StepTxt); strings.HasPrefix(sv, "-") {
			// a negative value must be attached, or it would read as another flag
			argv = append(argv, "--step="+sv)
		} else {
			add("step", sv)
		}
	}
	return append(argv, "{}")
}

func (propC16) Gen(r *Rng, run uint64, tier string) *Plan {
	p := &Plan{Harness: "cli", Tags: map[string]string{}, Config: "valid"}
	var s c16Spec
	s.Now = lo2001 + r.Int63n(hi2200c-lo2001)
	if r.Bool(0.3) {
		s.Now -= s.Now % sec
	}
	s.HasStart, s.HasEnd, s.HasSince, s.HasStep = r.Bool(0.5), r.Bool(0.5), r.Bool(0.5), r.Bool(0.4)
	s.End, s.EndSp = genInstant(r.Sub("end"), s.Now)
	if r.Bool(0.1) {
		s.End, s.EndSp = s.Now, "nanos" // exactly now
	}
	s.Start, s.StartSp = genInstant(r.Sub("start"), s.End-3600*sec)
	if er := r.Sub("early"); er.Bool(0.05) {
		// an explicit start in the first months of 1970: its nanosecond spelling has
		// 11 to 16 digits (below 11 it could not be told from seconds)
		p10 := int64(1)
		for k := 10 + er.Intn(6); k > 0; k-- {
			p10 *= 10
		}
		s.Start, s.StartSp, s.HasStart = p10+er.Int63n(9*p10), Pick(er, c16Spellings), true
		switch s.StartSp {
		case "sec":
			s.Start -= s.Start % sec
		case "frac":
			s.Start -= s.Start % 1_000_000
		}
		p.Tags["early_start"] = "1"
	}
	s.SinceNs, s.SinceTxt = genPromDuration(r.Sub("since"))
	if r.Bool(0.1) {
		// whole days, weeks or years: calendar arithmetic and absolute arithmetic differ across a DST switch
		d := int64(1 + r.Intn(9))
		unit, ns := "d", int64(24*3600)*sec
		if r.Bool(0.3) {
			unit, ns = "w", int64(7*24*3600)*sec
			d = int64(1 + r.Intn(3))
		}
		s.SinceNs, s.SinceTxt = d*ns, fmt.Sprintf("%d%s", d, unit)
		s.HasSince = true
		if r.Bool(0.5) {
			// a few days after the last Sunday of March or October of some year (European and US switches are near)
			year := 2002 + r.Intn(190)
			month := []time.Month{time.March, time.October, time.November, time.April}[r.Intn(4)]
			t := time.Date(year, month, 20+r.Intn(12), r.Intn(24), r.Intn(60), r.Intn(60), r.Intn(1_000_000_000), time.UTC)
			s.Now = t.UnixNano()
			s.HasStart = false
		}
	}
	s.StepTxt = Pick(r, []string{"1", "15", "0.5", "2.25", "30s", "1m", "1h30m", "1d", "250ms", "1e3"})
	if r.Bool(0.06) {
		s.TinyStep, s.HasStep = true, true
		s.StepTxt = Pick(r, []string{"1e-10", "0.0000000001", "5e-324", "1e-9", "0.000000001", "0.0000000004", "9e-10", "1e-12"})
		s.HasStart, s.HasEnd = true, true
		s.End -= s.End % 1_000_000
		s.Start = s.End
		s.StartSp, s.EndSp = Pick(r, []string{"nanos", "rfc", "frac"}), Pick(r, []string{"nanos", "rfc", "frac"})
		p.Config = "tiny_step"
	} else if r.Bool(0.35) {
		p.Config = "malformed"
		var cands []string
		if s.HasStart {
			cands = append(cands, "start")
		}
		if s.HasEnd {
			cands = append(cands, "end")
		}
		if s.HasSince {
			cands = append(cands, "since")
		}
		if s.HasStep {
			cands = append(cands, "step", "step")
		}
		if len(cands) == 0 {
			s.HasStep = true
			cands = []string{"step"}
		}
		s.Bad = Pick(r, cands)
		switch s.Bad {
		case "start", "end":
			s.BadTxt = Pick(r, []string{"yesterday", "12:30", "2023-13-45T00:00:00Z", "17e", "0x10", "2023-11-14", "1700000000.5.5", "2023-11-14T22:13:20", "now-1h", "1700000000s", "17900000000000000000", "99999999999999999999", "-99999999999999999999", "9223372036854775808"})
		case "since":
			s.BadTxt = Pick(r, []string{"abc", "5x", "h5", "1.5.2", "5 m", "m", "1h-30m", "5mm"})
		case "step":
			s.BadTxt = Pick(r, []string{"0", "0", "-5", "-0.5", "NaN", "nan", "0s", "0ms", "abc", "5x", "1.5.2", "-1m", "0.0"})
		}
	}
	p.CLI = &CLI{Now: s.Now, Argv: s.Argv(r.Sub("argv"))}
	if dr := r.Sub("client-delay"); dr.Bool(0.15) {
		// obtaining the API client takes a while: the clock moves on before the first request
		p.CLI.ClientDelayMs = 1 + dr.Intn(5000)
	}
	if r.Bool(0.4) {
		// the user's machine is rarely on UTC; zones with daylight saving included
		p.CLI.TZ = Pick(r, []string{"Europe/Berlin", "America/New_York", "Australia/Lord_Howe", "Asia/Kolkata", "America/St_Johns", "Pacific/Apia"})
	}
	p.Tags["spec"] = mustJSON(s)
	spec := WorldSpec{NMin: 1, NMax: 1, RecMin: 0, RecMax: 3, Lo: s.Now - 3600*sec, Hi: s.Now, Msg: "token", AllNamed: true, NoHuge: true}
	p.World = GenWorld(r.Sub("world"), spec)
	p.Variants = []Variant{genVariant(r.Sub("variant"), []int{1}, -1, false, false)}
	return p
}

func (propC16) Expand(t *testing.T, p *Plan) []*Plan { return []*Plan{p} }

func (propC16) Check(t *testing.T, p *Plan, st *Stats) *Violation {
	var s c16Spec
	mustUnJSON(p.Tags["spec"], &s)
	viol := func(clause, exp, obs string) *Violation {
		return &Violation{Property: "C16", Clause: clause, Expected: exp, Observed: obs,
			Detail: fmt.Sprintf("now=%s argv=%q", time.Unix(0, s.Now).UTC().Format(time.RFC3339Nano), p.CLI.Argv)}
	}
	if len(p.World.Containers) != 1 {
		return nil
	}
	o := Exec(t, p, 0, ExecOpts{})
	checkHarnessLimit(o)
	if st != nil {
		st.NoteOutcome(o)
		mask := ""
		for _, b := range []bool{s.HasStart, s.HasEnd, s.HasSince, s.HasStep} {
			if b {
				mask += "1"
			} else {
				mask += "0"
			}
		}
		rel := "past"
		if s.HasEnd && s.End > s.Now {
			rel = "future"
		} else if s.HasEnd && s.End == s.Now {
			rel = "now"
		}
		st.Signature(fmt.Sprintf("%s|%s|%s|%s|%s|%s|%s", mask, s.StartSp, s.EndSp, rel, s.Bad, s.BadTxt, s.StepTxt))
		st.Probe("flags_" + mask)
		st.ProbeIf(s.HasEnd && s.End > s.Now, "end_after_now")
		st.ProbeIf(s.HasEnd && s.End == s.Now, "end_equals_now")
		st.ProbeIf(s.Bad != "", "malformed_"+s.Bad)
		if s.HasStart {
			st.Probe("start_spelled_" + s.StartSp)
		}
		if s.HasEnd {
			st.Probe("end_spelled_" + s.EndSp)
		}
	}
	if o.Panic != "" {
		return viol("C16(panic)", "no panic", clip(o.Panic, 600))
	}
	if o.Hang {
		return viol("C16(hang)", "the command returns", "never returned")
	}
	if s.Bad != "" {
		if !o.Failed {
			return viol("C16(malformed-rejected)", fmt.Sprintf("the command rejects --%s=%q", s.Bad, s.BadTxt), "it succeeded")
		}
		return nil
	}
	if o.Failed && s.TinyStep {
		// rejecting a step that cannot be represented is fine
		if st != nil {
			st.Probe("tiny_step_rejected")
		}
		return nil
	}
	if st != nil {
		st.ProbeIf(s.TinyStep, "tiny_step_accepted")
	}
	if o.Failed {
		return viol("C16(valid-accepted)", "the command accepts well-formed flags", clip(o.ErrText, 300))
	}
	if len(o.Opens) != 1 {
		return viol("C16(valid-accepted)", "one ContainerLogs call for the single container", fmt.Sprintf("%d calls", len(o.Opens)))
	}
	end := s.Now
	if s.HasEnd {
		end = s.End
	}
	since := 6 * 3600 * sec
	if s.HasSince {
		since = s.SinceNs
	}
	endOrNow := end
	if s.Now < endOrNow {
		endOrNow = s.Now
	}
	start := endOrNow - since
	if s.HasStart {
		start = s.Start
	}
	op := o.Opens[0].Opts
	gs, okS, errS := parseDaemonTime(op.Since)
	gu, okU, errU := parseDaemonTime(op.Until)
	if errS != nil || errU != nil || !okS || !okU {
		return viol("C16(range)", "since and until as timestamps", fmt.Sprintf("since=%q until=%q", op.Since, op.Until))
	}
	if gs != floorSec(start) && s.TinyStep {
		return viol("C16(step-positive)", fmt.Sprintf("an accepted --step=%s is strictly positive: with start == end the daemon is asked since=%d", s.StepTxt, floorSec(start)/sec),
			fmt.Sprintf("since=%q: the query ran as an instant query with a look-back window, i.e. with step 0", op.Since))
	}
	if gs != floorSec(start) {
		how := "explicit --start"
		if !s.HasStart {
			how = "min(end, now) - since"
		}
		return viol("C16(start)", fmt.Sprintf("since=%d (%s = %s)", floorSec(start)/sec, how, time.Unix(0, start).UTC().Format(time.RFC3339Nano)),
			fmt.Sprintf("since=%q (%s)", op.Since, time.Unix(0, gs).UTC().Format(time.RFC3339Nano)))
	}
	if gu != floorSec(end) {
		how := "explicit --end"
		if !s.HasEnd {
			how = "now"
		}
		return viol("C16(end)", fmt.Sprintf("until=%d (%s = %s)", floorSec(end)/sec, how, time.Unix(0, end).UTC().Format(time.RFC3339Nano)),
			fmt.Sprintf("until=%q (%s)", op.Until, time.Unix(0, gu).UTC().Format(time.RFC3339Nano)))
	}
	return nil
}

// ShrinkCandidates drops flags one at a time.
func (propC16) ShrinkCandidates(p *Plan) []*Plan {
	var s c16Spec
	mustUnJSON(p.Tags["spec"], &s)
	var out []*Plan
	mk := func(ns c16Spec) {
		c := p.Clone()
		c.Tags["spec"] = mustJSON(ns)
		c.CLI.Argv = ns.Argv(NewRng(1))
		out = append(out, c)
	}
	if s.HasStart && s.Bad != "start" {
		ns := s
		ns.HasStart = false
		mk(ns)
	}
	if s.HasEnd && s.Bad != "end" {
		ns := s
		ns.HasEnd = false
		mk(ns)
	}
	if s.HasSince && s.Bad != "since" {
		ns := s
		ns.HasSince = false
		mk(ns)
	}
	if s.HasStep && s.Bad != "step" {
		ns := s
		ns.HasStep = false
		mk(ns)
	}
	for _, sp := range []string{"sec", "rfc"} {
		if s.HasEnd && s.EndSp != sp && s.Bad != "end" {
			ns := s
			ns.EndSp = sp
			ns.End -= ns.End % sec
			mk(ns)
		}
		if s.HasStart && s.StartSp != sp && s.Bad != "start" {
			ns := s
			ns.StartSp = sp
			ns.Start -= ns.Start % sec
			mk(ns)
		}
	}
	return out
}
