//go:debug asynctimerchan=0
package verifsim

import "testing"

// TestSim is the worker entry point when the binary is built from this
// package alone (no CLI harness). See Main for the environment it reads.
func TestSim(t *testing.T) { Main(t) }
