package verifsim

import (
	"sync"
	_ "time/tzdata" // the simulated command may run in any time zone

	"context"
	"fmt"
	"io"
	"runtime/debug"
	"strings"
	"testing"
	"testing/synctest"
	"time"

	"github.com/docker/cli/cli/command"
	"github.com/docker/docker/client"
	"go.opentelemetry.io/collector/pdata/pcommon"

	"github.com/tdakkota/docker-logql/internal/dockerlog"
	"github.com/tdakkota/docker-logql/internal/logql"
	"github.com/tdakkota/docker-logql/internal/logql/logqlengine"
	"github.com/tdakkota/docker-logql/internal/logql/logqlengine/logqlmetric"
	"github.com/tdakkota/docker-logql/internal/logstorage"
	"github.com/tdakkota/docker-logql/internal/lokiapi"
	"github.com/tdakkota/docker-logql/internal/otelstorage"
)

// MergedRec is one record as it came out of Querier.SelectLogs or ParseLog.
type MergedRec struct {
	TS          uint64 `json:"ts"`
	ObservedTS  uint64 `json:"observed_ts"`
	Body        string `json:"body"`
	ContainerID string `json:"container_id"`
}

// Outcome is everything observable about one execution.
type Outcome struct {
	Failed  bool   `json:"failed"`
	ErrText string `json:"err,omitempty"`
	Panic   string `json:"panic,omitempty"`
	Hang    bool   `json:"hang,omitempty"`

	Result   *Canon      `json:"result,omitempty"`
	Records  []MergedRec `json:"records,omitempty"`
	CloseErr string      `json:"close_err,omitempty"`
	Stdout   string      `json:"stdout,omitempty"`

	Lists       []ListCall     `json:"lists"`
	Opens       []OpenCall     `json:"opens"`
	Streams     []StreamInfo   `json:"streams"`
	FaultsFired map[string]int `json:"faults_fired"`
	BatchSizes  []int          `json:"batch_sizes"`
	BatchPerms  [][]int        `json:"batch_perms"`

	Transport int      `json:"transport_events"`
	Hash      uint64   `json:"hash"`
	Log       []string `json:"-"`
	SimNs     int64    `json:"sim_ns"`
	MapCalls  int      `json:"map_calls"`

	evalReturned bool
	// IdleAdvances counts how often the scheduler let simulated time pass because the
	// code under test was waiting on a timer of its own.
	IdleAdvances int
	// GatedOps / GatedChoices: operations released in GateReads mode, and how many
	// of those releases had more than one candidate.
	GatedOps     int `json:"gated_ops,omitempty"`
	GatedChoices int `json:"gated_choices,omitempty"`
	// CtxCancelled: the evaluation's context was cancelled by a ctx_cancel fault.
	CtxCancelled bool `json:"ctx_cancelled,omitempty"`
	// GoroutineLeak: evaluation returned, but goroutines it started stay blocked for good.
	GoroutineLeak bool `json:"goroutine_leak,omitempty"`
	// LateReleases counts ContainerLogs calls that were still parked when evaluation returned.
	LateReleases int `json:"late_releases,omitempty"`
	// RepollRecords counts records produced by Next after it had returned false.
	RepollRecords int `json:"repoll_records,omitempty"`
	// WarmupOpens counts the ContainerLogs calls of the warm-up evaluations (Variant.Warmup).
	WarmupOpens int `json:"warmup_opens,omitempty"`
	// After holds the answers of the evaluations that followed once faults had stopped (Variant.After).
	After []AfterEval `json:"after,omitempty"`
}

// Bad reports whether the execution ended abnormally (panic or hang).
func (o *Outcome) Bad() bool { return o.Panic != "" || o.Hang }

// ErrClass gives a coarse class of the outcome for comparisons.
func (o *Outcome) ErrClass() string {
	switch {
	case o.Panic != "":
		return "panic"
	case o.Hang:
		return "hang"
	case o.Failed:
		return "error"
	}
	return "ok"
}

// CLIRunner executes the real command with argv against cli, writing to
// stdout. It is installed by the overlay test file in package main.
var CLIRunner func(ctx context.Context, cli command.Cli, argv []string, stdout io.Writer) error

// simCli is the command.Cli stub: only Client() is implemented.
type simCli struct {
	command.Cli
	c     client.APIClient
	delay time.Duration
}

func (s *simCli) Client() client.APIClient {
	if s.delay > 0 {
		time.Sleep(s.delay) // simulated time
	}
	return s.c
}

// ExecOpts tune one execution.
type ExecOpts struct {
	Verbose bool
}

// fakeEpoch is where the synctest clock starts.
var fakeEpoch = time.Date(2000, 1, 1, 0, 0, 0, 0, time.UTC)

// seamMu guards the counters of the seam callbacks: code under test may call
// them from several goroutines (operands evaluated concurrently).
var seamMu sync.Mutex

func installMapOrder(v *Variant, calls *int) {
	if v.MapSeed == 0 {
		logqlengine.VerifMapOrder = func(keys []logql.Label) []logql.Label {
			seamMu.Lock()
			*calls++
			seamMu.Unlock()
			return keys
		}
		identity := func(n int) []int {
			out := make([]int, n)
			for i := range out {
				out[i] = i
			}
			return out
		}
		logqlengine.VerifStreamOrder = identity
		logqlmetric.VerifSampleOrder = identity
		return
	}
	root := NewRng(v.MapSeed)
	logqlengine.VerifMapOrder = func(keys []logql.Label) []logql.Label {
		seamMu.Lock()
		r := root.SubN("map", uint64(*calls))
		*calls++
		seamMu.Unlock()
		for i := len(keys) - 1; i > 0; i-- {
			j := r.Intn(i + 1)
			keys[i], keys[j] = keys[j], keys[i]
		}
		return keys
	}
	logqlengine.VerifStreamOrder = func(n int) []int {
		return root.Sub("streams").Perm(n)
	}
	sampleCalls := uint64(0)
	logqlmetric.VerifSampleOrder = func(n int) []int {
		seamMu.Lock()
		sampleCalls++
		k := sampleCalls
		seamMu.Unlock()
		return root.SubN("samples", k).Perm(n)
	}
}

func uninstallMapOrder() {
	logqlengine.VerifMapOrder = nil
	logqlengine.VerifStreamOrder = nil
	logqlmetric.VerifSampleOrder = nil
}

// Exec executes variant vi of the plan and returns what was observed.
func Exec(t *testing.T, p *Plan, vi int, opts ExecOpts) *Outcome {
	v := &Variant{}
	if vi < len(p.Variants) {
		v = &p.Variants[vi]
	}
	out := &Outcome{}
	// The world is never mutated by the daemon (it copies what it hands out).
	world := p.World
	installMapOrder(v, &out.MapCalls)
	defer uninstallMapOrder()

	if p.Harness == "parselog" {
		execParseLog(p, &world, v, opts, out)
		return out
	}

	func() {
		defer func() {
			if r := recover(); r != nil {
				msg := fmt.Sprint(r)
				if strings.Contains(msg, "deadlock") || strings.Contains(msg, "blocked goroutines remain") {
					if out.evalReturned {
						// evaluation came back; what stays blocked is a leaked goroutine
						out.GoroutineLeak = true
					} else {
						out.Hang = true
					}
					return
				}
				panic(r)
			}
		}()
		synctest.Test(t, func(t *testing.T) {
			bubble(p, &world, v, opts, out)
		})
	}()
	return out
}

type evalResult struct {
	data    lokiapi.QueryResponseData
	hasData bool
	err     error
	after   []AfterEval
}

// AfterEval is the answer of one evaluation that followed the judged one on the
// same Engine, after all faults had stopped (Variant.After).
type AfterEval struct {
	Failed  bool   `json:"failed"`
	ErrText string `json:"err,omitempty"`
	Render  string `json:"render,omitempty"`
}

func bubble(p *Plan, world *World, v *Variant, opts ExecOpts, out *Outcome) {
	d := NewDaemon(world, p.Faults, v, opts.Verbose)
	if p.Harness == "cli" && p.CLI != nil {
		// Position the fake clock.
		if dt := time.Unix(0, p.CLI.Now).Sub(time.Now()); dt > 0 {
			time.Sleep(dt)
		}
	}
	start := time.Now()
	done := make(chan struct{})
	var res evalResult
	go func() {
		defer close(done)
		defer func() {
			if r := recover(); r != nil {
				out.Panic = fmt.Sprintf("%v\n%s", r, clip(string(debug.Stack()), 4000))
			}
		}()
		switch p.Harness {
		case "engine":
			res = runEngine(d, p)
		case "selectlogs":
			res = runSelectLogs(d, p, out)
		case "cli":
			res = runCLI(d, p, out)
		default:
			panic("verifsim: unknown harness " + p.Harness)
		}
		d.MarkReturn()
	}()
	out.Hang = schedule(d, v, done, out)
	if !out.Hang {
		// Evaluation has returned. Requests that are still parked (an evaluation
		// that does not wait for all of its opens) are answered now, one at a
		// time, so that what they hand out is accounted for as well.
		for i := 0; i < 10000; i++ {
			synctest.Wait()
			parked := d.Parked()
			if lr := d.ParkedReads(); len(lr) > 0 {
				// a goroutine of the evaluation is still reading: let it
				d.ReleaseRead(lr[0])
				continue
			}
			if len(parked) == 0 {
				if wake, ok := d.nextWake(); ok {
					if dt := time.Until(wake); dt > 0 {
						time.Sleep(dt)
					} else {
						time.Sleep(time.Nanosecond)
					}
					continue
				}
				break
			}
			out.LateReleases++
			d.Release(parked[0], len(out.BatchSizes))
		}
	}
	if out.Hang {
		// Try to let a follow-blocked reader go so that the bubble can end.
		close(d.never)
		synctest.Wait()
	}
	out.SimNs = int64(time.Since(start))

	d.mu.Lock()
	defer d.mu.Unlock()
	select {
	case <-done:
		out.evalReturned = true
		if out.Panic == "" && !out.Hang {
			if res.err != nil {
				out.Failed = true
				out.ErrText = res.err.Error()
			} else if res.hasData {
				out.Result = Canonicalize(res.data)
			}
			out.After = res.after
		}
	default:
	}
	out.Lists = d.Lists
	d.mu.Unlock()
	out.Opens = d.OpenCalls()
	for _, oc := range out.Opens {
		if oc.Phase >= 100 {
			out.WarmupOpens++
		}
	}
	d.mu.Lock()
	for _, s := range d.Streams {
		out.Streams = append(out.Streams, s.Info)
	}
	out.FaultsFired = d.FaultsFired
	out.Transport = d.seq
	out.Hash = d.hash
	out.Log = d.log
	out.CtxCancelled = d.CtxCancelled
}

// schedule drives the run: at every quiescence point it releases exactly one
// parked ContainerLogs call (or a whole batch in parallel mode), in the order
// the variant prescribes. It returns true if the evaluation can never finish.
func schedule(d *Daemon, v *Variant, done chan struct{}, out *Outcome) (hang bool) {
	batch := -1
	var order []*gate
	released := 0
	// simulated time spent waiting for the code under test while nothing was pending
	const maxIdle = time.Hour
	var idle time.Duration
	idleSteps := 0
	for steps := 0; ; steps++ {
		synctest.Wait()
		select {
		case <-done:
			return false
		default:
		}
		parked := d.Parked()
		reads := d.ParkedReads()
		if v.GateReads && len(parked)+len(reads) > 0 {
			idle, idleSteps = 0, 0
			// PRNG-driven choice among everything that is parked: opens in inventory
			// order first, then reads in stream order.
			pick := NewRng(v.SchedSeed).SubN("pick", uint64(steps)).Intn(len(parked) + len(reads))
			if pick < len(parked) {
				// opens of one selection follow its ContainerList call: that is their batch
				d.Release(parked[pick], d.listCount()-1)
				out.GatedOps++
			} else {
				d.ReleaseRead(reads[pick-len(parked)])
				out.GatedOps++
				if len(parked)+len(reads) > 1 {
					out.GatedChoices++
				}
			}
			continue
		}
		if len(parked) == 0 {
			wake, ok := d.nextWake()
			if !ok {
				// Nothing is parked and the daemon has nothing scheduled. The code under test
				// may be waiting on a timer of its own (a retry back-off, a poll interval):
				// let simulated time pass, in growing steps, before calling it a hang. No
				// request is pending while this happens, so no timeout of the code under
				// test can fire because of it.
				if idle >= maxIdle {
					return true
				}
				step := time.Millisecond << idleSteps
				if step > 10*time.Minute {
					step = 10 * time.Minute
				}
				time.Sleep(step)
				idle += step
				idleSteps++
				out.IdleAdvances++
				continue
			}
			if dt := time.Until(wake); dt > 0 {
				time.Sleep(dt)
			} else {
				time.Sleep(time.Nanosecond)
			}
			continue
		}
		idle, idleSteps = 0, 0
		select {
		case <-d.arrival:
		default:
		}
		// Drop gates that are gone, add newcomers in arrival order.
		still := order[:0]
		for _, g := range order {
			for _, pg := range parked {
				if pg == g {
					still = append(still, g)
					break
				}
			}
		}
		order = still
		if len(order) == 0 {
			batch++
			var perm []int
			if batch < len(v.Batches) {
				perm = v.Batches[batch]
			}
			order = applyPerm(parked, perm)
			out.BatchSizes = append(out.BatchSizes, len(parked))
			out.BatchPerms = append(out.BatchPerms, normPerm(len(parked), perm))
		} else if len(order) < len(parked) {
			for _, pg := range parked {
				found := false
				for _, g := range order {
					if g == pg {
						found = true
						break
					}
				}
				if !found {
					order = append(order, pg)
				}
			}
		}
		if v.Mode == "parallel" {
			for _, g := range order {
				d.Release(g, batch)
				released++
			}
			order = nil
			continue
		}
		g := order[0]
		order = order[1:]
		if released < len(v.DelaysMs) && v.DelaysMs[released] > 0 {
			time.Sleep(time.Duration(v.DelaysMs[released]) * time.Millisecond)
		}
		d.Release(g, batch)
		released++
	}
}

// normPerm turns an arbitrary int list into a permutation of [0,n): entries
// out of range or repeated are dropped, missing indexes are appended in order.
func normPerm(n int, perm []int) []int {
	seen := make([]bool, n)
	out := make([]int, 0, n)
	for _, x := range perm {
		if x >= 0 && x < n && !seen[x] {
			seen[x] = true
			out = append(out, x)
		}
	}
	for i := 0; i < n; i++ {
		if !seen[i] {
			out = append(out, i)
		}
	}
	return out
}

func applyPerm(parked []*gate, perm []int) []*gate {
	np := normPerm(len(parked), perm)
	out := make([]*gate, 0, len(parked))
	for _, i := range np {
		out = append(out, parked[i])
	}
	return out
}

func isIdentity(p []int) bool {
	for i, x := range p {
		if i != x {
			return false
		}
	}
	return true
}

func runEngine(d *Daemon, p *Plan) (res evalResult) {
	q, err := dockerlog.NewQuerier(d)
	if err != nil {
		res.err = err
		return res
	}
	eng := logqlengine.NewEngine(q, logqlengine.Options{
		LookbackDuration: time.Duration(p.Params.LookbackNs),
	})
	ctx, cancel := context.WithCancel(context.Background())
	defer cancel()
	d.CancelFn = cancel
	if v := d.variant; v != nil && v.Warmup > 0 {
		// The same long-lived Engine and Querier answer earlier evaluations first.
		// Their answers are discarded; the evaluation that is judged follows.
		wq := v.WarmupQuery
		if wq == "" {
			wq = p.Query
		}
		d.SetPhase(100)
		for i := 0; i < v.Warmup; i++ {
			_, _ = eng.Eval(ctx, wq, logqlengine.EvalParams{
				Start: otelstorage.Timestamp(p.Params.Start),
				End:   otelstorage.Timestamp(p.Params.End),
				Step:  time.Duration(p.Params.StepNs),
				Limit: p.Params.Limit,
			})
		}
		d.SetPhase(0)
	}
	res.data, res.err = eng.Eval(ctx, p.Query, logqlengine.EvalParams{
		Start: otelstorage.Timestamp(p.Params.Start),
		End:   otelstorage.Timestamp(p.Params.End),
		Step:  time.Duration(p.Params.StepNs),
		Limit: p.Params.Limit,
	})
	res.hasData = res.err == nil
	if v := d.variant; v != nil && v.After > 0 {
		d.FaultsOff()
		d.SetPhase(200)
		for i := 0; i < v.After; i++ {
			data, err := eng.Eval(context.Background(), p.Query, logqlengine.EvalParams{
				Start: otelstorage.Timestamp(p.Params.Start),
				End:   otelstorage.Timestamp(p.Params.End),
				Step:  time.Duration(p.Params.StepNs),
				Limit: p.Params.Limit,
			})
			ae := AfterEval{Failed: err != nil}
			if err != nil {
				ae.ErrText = err.Error()
			} else {
				ae.Render = Canonicalize(data).Render()
			}
			res.after = append(res.after, ae)
		}
	}
	return res
}

func runSelectLogs(d *Daemon, p *Plan, out *Outcome) (res evalResult) {
	q, err := dockerlog.NewQuerier(d)
	if err != nil {
		res.err = err
		return res
	}
	if pre := p.Tags["pre_query"]; pre != "" {
		// An earlier, different selection through the same querier: whatever it
		// leaves behind must not influence the selection that is judged.
		psel, err := logql.ParseSelector(pre, logql.ParseOptions{})
		if err != nil {
			res.err = fmt.Errorf("parse: %w", err)
			return res
		}
		piter, err := q.SelectLogs(context.Background(),
			otelstorage.Timestamp(p.Params.Start), otelstorage.Timestamp(p.Params.End),
			logqlengine.SelectLogsParams{Labels: psel.Matchers})
		if err != nil {
			res.err = err
			return res
		}
		var prec logstorage.Record
		for n := 0; piter.Next(&prec); n++ {
			if n > 1_000_000 {
				panic("verifsim: iterator does not terminate")
			}
		}
		_ = piter.Close()
		d.SetPhase(1)
	}
	sel, err := logql.ParseSelector(p.Query, logql.ParseOptions{})
	if err != nil {
		res.err = fmt.Errorf("parse: %w", err)
		return res
	}
	iter, err := q.SelectLogs(context.Background(),
		otelstorage.Timestamp(p.Params.Start), otelstorage.Timestamp(p.Params.End),
		logqlengine.SelectLogsParams{Labels: sel.Matchers})
	if err != nil {
		res.err = err
		return res
	}
	var rec logstorage.Record
	for iter.Next(&rec) {
		out.Records = append(out.Records, toMerged(rec))
		if len(out.Records) > 1_000_000 {
			panic("verifsim: iterator does not terminate")
		}
	}
	res.err = iter.Err()
	if cerr := iter.Close(); cerr != nil {
		out.CloseErr = cerr.Error()
	}
	return res
}

func toMerged(rec logstorage.Record) MergedRec {
	m := MergedRec{TS: uint64(rec.Timestamp), ObservedTS: uint64(rec.ObservedTimestamp), Body: rec.Body}
	if !rec.ResourceAttrs.IsZero() {
		if v, ok := rec.ResourceAttrs.AsMap().Get("container_id"); ok {
			m.ContainerID = v.AsString()
		}
	}
	return m
}

func runCLI(d *Daemon, p *Plan, out *Outcome) (res evalResult) {
	if CLIRunner == nil {
		panic("verifsim: CLIRunner not installed (binary built without the cli overlay)")
	}
	if p.CLI.TZ != "" {
		loc, err := time.LoadLocation(p.CLI.TZ)
		if err != nil {
			panic(HarnessLimit{Msg: "time zone database not available: " + err.Error()})
		}
		old := time.Local
		time.Local = loc
		defer func() { time.Local = old }()
	}
	ctx, cancel := context.WithCancel(context.Background())
	defer cancel()
	d.CancelFn = cancel
	var sb strings.Builder
	var w io.Writer = &sb
	if d.variant.StdoutFailAfter > 0 {
		w = &failingWriter{w: &sb, left: d.variant.StdoutFailAfter}
	}
	res.err = CLIRunner(ctx, &simCli{c: d, delay: time.Duration(p.CLI.ClientDelayMs) * time.Millisecond}, p.CLI.Argv, w)
	out.Stdout = sb.String()
	return res
}

// failingWriter accepts a number of bytes and then reports a broken pipe.
type failingWriter struct {
	w    io.Writer
	left int
}

func (f *failingWriter) Write(p []byte) (int, error) {
	if f.left <= 0 {
		return 0, io.ErrClosedPipe
	}
	if len(p) > f.left {
		n, _ := f.w.Write(p[:f.left])
		f.left = 0
		return n, io.ErrClosedPipe
	}
	f.left -= len(p)
	return f.w.Write(p)
}

// execParseLog decodes the single container's stream with dockerlog.ParseLog.
// No scheduler is involved: the only party is the reader.
func execParseLog(p *Plan, world *World, v *Variant, opts ExecOpts, out *Outcome) {
	d := NewDaemon(world, p.Faults, v, opts.Verbose)
	d.noSleep = true
	defer func() {
		if r := recover(); r != nil {
			out.Panic = fmt.Sprintf("%v\n%s", r, clip(string(debug.Stack()), 4000))
		}
		for _, s := range d.Streams {
			out.Streams = append(out.Streams, s.Info)
		}
		out.FaultsFired = d.FaultsFired
		out.Transport = d.seq
		out.Hash = d.hash
		out.Log = d.log
	}()
	c := &world.Containers[0]
	frameKinds := map[int]string{}
	for _, f := range p.Faults {
		if f.Kind == FaultFrame {
			frameKinds[f.Frame] = f.FrameKind
		}
	}
	layout, err := BuildStream(c, LogsOpts{ShowStdout: true, ShowStderr: true, Timestamps: true, Tail: "all"}, frameKinds)
	if err != nil {
		panic(err)
	}
	s := newSimStream(d, c.ID, 0, layout, false, frameKinds)
	d.Streams = append(d.Streams, s)
	attrs := otelstorage.Attrs(pcommon.NewMap())
	attrs.AsMap().PutStr("container_id", c.ID)
	iter := dockerlog.ParseLog(s, attrs)
	var rec logstorage.Record
	for iter.Next(&rec) {
		out.Records = append(out.Records, toMerged(rec))
		if len(out.Records) > 1_000_000 {
			panic("verifsim: iterator does not terminate")
		}
	}
	// Optionally poll again after the end, as consumers in this code base do
	// (the range aggregation polls its source again at every step).
	for k := 0; k < p.Params.Repoll; k++ {
		if iter.Next(&rec) {
			out.Records = append(out.Records, toMerged(rec))
			out.RepollRecords++
		}
	}
	if err := iter.Err(); err != nil {
		out.Failed = true
		out.ErrText = err.Error()
	}
	if cerr := iter.Close(); cerr != nil {
		out.CloseErr = cerr.Error()
	}
}
