package verifsim

import (
	"encoding/binary"
	"fmt"
	"sort"
	"strconv"
	"strings"
	"time"
)

// Record is one log record of a container, as the daemon holds it.
type Record struct {
	T   int    `json:"t"`   // 1 stdout, 2 stderr
	TS  int64  `json:"ts"`  // unix nanoseconds
	Msg []byte `json:"msg"` // message bytes (base64 in JSON)
	// Off, if non-zero, renders the timestamp with this UTC offset (seconds east).
	Off int `json:"off,omitempty"`
}

// Container is one container of the simulated daemon's inventory.
type Container struct {
	ID      string            `json:"id"`
	Names   []string          `json:"names"`
	Image   string            `json:"image"`
	ImageID string            `json:"image_id"`
	Command string            `json:"command"`
	Created int64             `json:"created"`
	State   string            `json:"state"`
	Status  string            `json:"status"`
	Labels  map[string]string `json:"labels,omitempty"`
	TSStyle string            `json:"ts_style,omitempty"` // "fixed9" (default), "trimmed" or "offsets"
	Log     []Record          `json:"log"`
}

// World is the simulated daemon's whole state. Plain data.
type World struct {
	Containers []Container `json:"containers"`
}

// Clone deep-copies the world.
func (w World) Clone() World {
	out := World{Containers: make([]Container, len(w.Containers))}
	for i, c := range w.Containers {
		out.Containers[i] = c.Clone()
	}
	return out
}

// Clone deep-copies the container.
func (c Container) Clone() Container {
	o := c
	o.Names = append([]string(nil), c.Names...)
	if c.Labels != nil {
		o.Labels = make(map[string]string, len(c.Labels))
		for k, v := range c.Labels {
			o.Labels[k] = v
		}
	}
	o.Log = make([]Record, len(c.Log))
	for i, r := range c.Log {
		o.Log[i] = Record{T: r.T, TS: r.TS, Msg: append([]byte(nil), r.Msg...), Off: r.Off}
	}
	return o
}

// Find returns the container with the given id.
func (w World) Find(id string) *Container {
	for i := range w.Containers {
		if w.Containers[i].ID == id {
			return &w.Containers[i]
		}
	}
	return nil
}

// Name returns the container's name as the tool is documented to show it.
func (c Container) Name() string {
	if len(c.Names) == 0 {
		return ""
	}
	return strings.TrimPrefix(c.Names[0], "/")
}

const fixed9Layout = "2006-01-02T15:04:05.000000000Z07:00"

// FormatRec renders the timestamp of a record.
func (c Container) FormatRec(r Record) string {
	if r.Off != 0 {
		return time.Unix(0, r.TS).In(time.FixedZone("", r.Off)).Format(fixed9Layout)
	}
	return c.FormatTS(r.TS)
}

// FormatTS renders a record timestamp the way the daemon does.
func (c Container) FormatTS(ns int64) string {
	t := time.Unix(0, ns).UTC()
	switch c.TSStyle {
	case "trimmed":
		return t.Format(time.RFC3339Nano)
	case "offsets":
		// Numeric UTC offsets that change from record to record (RFC 3339 allows
		// them; a daemon configured with a local zone crossing a DST change).
		off := []int{0, 3600, 7200, -5*3600 - 1800}[(ns/1000)%4]
		if off != 0 {
			return t.In(time.FixedZone("", off)).Format(fixed9Layout)
		}
	}
	return t.Format(fixed9Layout)
}

// Frame kinds used by frame-level faults.
const (
	FrameOK           = ""
	FrameSysProse     = "sys_prose"
	FrameSysLine      = "sys_line"
	FrameBadTimestamp = "bad_timestamp"
	FrameNoSpace      = "no_space"
	FrameEmptyPayload = "empty_payload"
	// FrameBadDate: a well-formed fixed-width timestamp naming a day that does not exist.
	FrameBadDate = "bad_date"
)

// EncodeFrame encodes one record in stdcopy framing. With timestamps=false
// the payload is the bare message (what a daemon sends if not asked for
// timestamps). kind selects a corrupted encoding.
func (c Container) EncodeFrame(r Record, timestamps bool, kind string) []byte {
	typ := byte(r.T)
	var payload []byte
	switch kind {
	case FrameSysProse:
		typ = 3
		payload = []byte("error from daemon in stream: Error grabbing logs: invalid character 'x' looking for beginning of value")
	case FrameSysLine:
		typ = 3
		payload = append([]byte(c.FormatRec(r)+" "), r.Msg...)
	case FrameBadTimestamp:
		payload = append([]byte("20x3-13-45T99:99:99Z "), r.Msg...)
	case FrameBadDate:
		day := []string{"2023-02-30", "2024-04-31", "2100-02-29", "2023-02-29", "2023-06-31", "2023-11-31"}[int(uint64(r.TS)%6)]
		payload = append([]byte(day+"T12:00:00.000000000Z "), r.Msg...)
	case FrameNoSpace:
		payload = []byte(strings.ReplaceAll(c.FormatTS(r.TS), " ", "") + "nospace")
	case FrameEmptyPayload:
		payload = nil
	default:
		if timestamps {
			payload = append([]byte(c.FormatRec(r)+" "), r.Msg...)
		} else {
			payload = append([]byte(nil), r.Msg...)
		}
	}
	out := make([]byte, 8, 8+len(payload))
	out[0] = typ
	binary.BigEndian.PutUint32(out[4:8], uint32(len(payload)))
	return append(out, payload...)
}

// parseDaemonTime parses a since/until value the way the Docker daemon does:
// unix seconds with optional ".nanos" fraction, or RFC 3339. Empty means unset.
func parseDaemonTime(s string) (ns int64, set bool, err error) {
	if s == "" {
		return 0, false, nil
	}
	if t, perr := time.Parse(time.RFC3339Nano, s); perr == nil {
		return t.UnixNano(), true, nil
	}
	secs, frac, hasFrac := strings.Cut(s, ".")
	sec, perr := strconv.ParseInt(secs, 10, 64)
	if perr != nil {
		return 0, false, fmt.Errorf("invalid timestamp %q", s)
	}
	var nanos int64
	if hasFrac {
		if len(frac) > 9 {
			return 0, false, fmt.Errorf("invalid timestamp %q", s)
		}
		frac += strings.Repeat("0", 9-len(frac))
		nanos, perr = strconv.ParseInt(frac, 10, 64)
		if perr != nil {
			return 0, false, fmt.Errorf("invalid timestamp %q", s)
		}
	}
	// The daemon accepts any int64 second count; instants beyond what int64
	// nanoseconds can hold saturate (no record of any world lies out there).
	const maxSec = 9_223_372_035
	if sec > maxSec {
		return 1<<63 - 1, true, nil
	}
	if sec < -maxSec {
		return -1 << 63, true, nil
	}
	return sec*1_000_000_000 + nanos, true, nil
}

// SanitizeLabel is the reference for turning a Docker label key into a LogQL
// label name: every character outside [A-Za-z0-9_] becomes '_', and a name
// that would start with a digit is prefixed by '_'.
func SanitizeLabel(key string) string {
	var sb strings.Builder
	for i, r := range key {
		ok := r == '_' || (r >= 'a' && r <= 'z') || (r >= 'A' && r <= 'Z') || (r >= '0' && r <= '9')
		if i == 0 && r >= '0' && r <= '9' {
			sb.WriteByte('_')
		}
		if ok {
			sb.WriteRune(r)
		} else {
			sb.WriteByte('_')
		}
	}
	return sb.String()
}

// RefLabels is the reference model of the labels a container carries.
func (c Container) RefLabels() map[string]string {
	m := map[string]string{
		"container":          c.Name(),
		"container_id":       c.ID,
		"container_name":     c.Name(),
		"container_image":    c.Image,
		"container_image_id": c.ImageID,
		"container_command":  c.Command,
		"container_created":  strconv.FormatInt(c.Created, 10),
		"container_state":    c.State,
		"container_status":   c.Status,
	}
	for k, v := range c.Labels {
		m[SanitizeLabel(k)] = v
	}
	return m
}

// sortedKeys returns the keys of m in sorted order.
func sortedKeys[V any](m map[string]V) []string {
	ks := make([]string, 0, len(m))
	for k := range m {
		ks = append(ks, k)
	}
	sort.Strings(ks)
	return ks
}

// RenderLabels renders a label map canonically.
func RenderLabels(m map[string]string) string {
	var sb strings.Builder
	sb.WriteByte('{')
	for i, k := range sortedKeys(m) {
		if i > 0 {
			sb.WriteByte(',')
		}
		sb.WriteString(k)
		sb.WriteByte('=')
		sb.WriteString(strconv.Quote(m[k]))
	}
	sb.WriteByte('}')
	return sb.String()
}
