package verifsim

import (
	"encoding/json"

	"github.com/tdakkota/docker-logql/internal/logql"
)

func mustJSON(v any) string {
	b, err := json.Marshal(v)
	if err != nil {
		panic(err)
	}
	return string(b)
}

func mustUnJSON(s string, v any) {
	if s == "" {
		return
	}
	if err := json.Unmarshal([]byte(s), v); err != nil {
		panic(err)
	}
}

// parses reports whether the pinned parser accepts the query. A query the
// parser rejects is not a case of any claimed property (that is C05/C13).
func parses(q string) bool {
	_, err := logql.Parse(q, logql.ParseOptions{})
	return err == nil
}
