//go:debug asynctimerchan=0
package main

import (
	"context"
	"io"
	"testing"

	"github.com/docker/cli/cli/command"

	"github.com/tdakkota/docker-logql/internal/verifsim"
)

func init() {
	verifsim.CLIRunner = func(ctx context.Context, cli command.Cli, argv []string, stdout io.Writer) error {
		cmd := rootCmd(cli)
		cmd.SetArgs(argv)
		cmd.SetOut(stdout)
		cmd.SetErr(io.Discard)
		cmd.SilenceUsage = true
		cmd.SilenceErrors = true
		return cmd.ExecuteContext(ctx)
	}
}

// TestSim is the worker entry point of the simulation binary: the real
// command package plus the harness. See verifsim.Main.
func TestSim(t *testing.T) { verifsim.Main(t) }
