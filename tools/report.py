#!/usr/bin/env python3
"""Fills the <!-- MUTANTS-TABLE --> and <!-- SEEDED-TABLE --> blocks of DESIGN.md from recorded results."""
import json, os, re

V = os.path.dirname(os.path.dirname(os.path.abspath(__file__)))


def mutants():
    path = os.path.join(V, "tools", "mutants_result.json")
    if not os.path.isfile(path):
        return "(not run yet)"
    rs = json.load(open(path))
    out = ["| id | change | passes the repo's suite | result |", "|----|--------|------------------------|--------|"]
    for r in sorted(rs, key=lambda r: r["id"]):
        sp = {True: "yes", False: "no (the suite already catches it)", None: "-"}[r.get("suite_passes")]
        out.append("| %s | %s | %s | %s |" % (r["id"], r["note"].replace("|", "/"), sp, r["status"].split(":")[0][:60]))
    caught = sum(1 for r in rs if r["status"].startswith("CAUGHT"))
    exp = sum(1 for r in rs if r["expected"])
    surv = [r["id"] for r in rs if r["status"] == "SURVIVED" and r["expected"]]
    out.append("")
    out.append("%d edits, %d expected to be caught, %d caught; expected-but-surviving: %s. The rows marked NEUTRAL / OUT OF REACH / UNREACHABLE / EXPECTED SURVIVOR are meant to survive (specificity)." % (len(rs), exp, caught, surv or "none"))
    return "\n".join(out)


def seeded():
    d = os.path.join(V, "seeded")
    out = ["| name | property | what it needs to manifest | caught by (quick tier) |", "|------|----------|---------------------------|------------------------|"]
    n = c = 0
    for name in sorted(os.listdir(d)):
        mp = os.path.join(d, name, "meta.json")
        if not os.path.isfile(mp):
            continue
        m = json.load(open(mp))
        n += 1
        cq = m.get("checks_quick") or {}
        caught = cq.get("caught_by")
        if caught:
            c += 1
        needs = (m.get("needs_to_manifest") or "").replace("|", "/").replace("\n", " ")
        if len(needs) > 260:
            needs = needs[:257] + "..."
        mark = ", ".join(caught) if caught else ("**missed**" if cq else "(not run)")
        out.append("| %s | %s | %s | %s |" % (name, m.get("property"), needs, mark))
    out.append("")
    out.append("%d changes kept, %d caught by at least one check's quick tier." % (n, c))
    return "\n".join(out)


def neutral():
    d = os.path.join(V, "neutral")
    if not os.path.isdir(d):
        return "(none)"
    out = ["| name | change | flagged by |", "|------|--------|------------|"]
    n = bad = 0
    for name in sorted(os.listdir(d)):
        mp = os.path.join(d, name, "meta.json")
        if not os.path.isfile(mp):
            continue
        m = json.load(open(mp))
        n += 1
        cq = m.get("checks_quick") or {}
        caught = cq.get("caught_by")
        if caught:
            bad += 1
        summ = (m.get("summary") or "").replace("|", "/").replace("\n", " ")
        if len(summ) > 240:
            summ = summ[:237] + "..."
        out.append("| %s | %s | %s |" % (name, summ, ", ".join(caught) if caught else ("nothing" if cq else "(not run)")))
    out.append("")
    out.append("%d behaviour-preserving changes, %d flagged." % (n, bad))
    return "\n".join(out)


def main():
    p = os.path.join(V, "DESIGN.md")
    s = open(p).read()
    for tag, fn in (("MUTANTS-TABLE", mutants), ("SEEDED-TABLE", seeded), ("NEUTRAL-TABLE", neutral)):
        block = "<!-- %s -->\n%s\n<!-- /%s -->" % (tag, fn(), tag)
        if "<!-- /%s -->" % tag in s:
            s = re.sub(r"<!-- %s -->.*?<!-- /%s -->" % (tag, tag), lambda m: block, s, flags=re.S)
        else:
            s = s.replace("<!-- %s -->" % tag, block)
    open(p, "w").write(s)


if __name__ == "__main__":
    main()
