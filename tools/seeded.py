#!/usr/bin/env python3
"""Confirm sub-agent seeded changes and run the checks against them.

usage: tools/seeded.py intake <src_dir> <name>     # e.g. /tmp/seed/C14/seed_out/A C14-A : verify + copy into /verif/seeded/<name>
       tools/seeded.py run [<name> ...] [--budget S] [--props C02,C14]   # run checks against kept changes
"""
import json, os, shutil, subprocess, sys, time

REPO, VERIF, SCRATCH = "/repo", os.path.dirname(os.path.dirname(os.path.abspath(__file__))), "/tmp/verif-seeded-%d" % os.getpid()
PROPS = ["C02", "C03", "C04", "C10", "C14", "C16", "C18"]


def sh(cmd, cwd=None, env=None):
    return subprocess.run(cmd, cwd=cwd, env=env, capture_output=True, text=True)


def goenv():
    e = dict(os.environ)
    e.update({"GOFLAGS": "-mod=mod", "GOPROXY": "off", "GOSUMDB": "off"})
    return e


def worktree(tag):
    wt = os.path.join(SCRATCH, tag)
    os.makedirs(SCRATCH, exist_ok=True)
    if os.path.isdir(wt):
        sh(["git", "-C", REPO, "worktree", "remove", "--force", wt])
        shutil.rmtree(wt, ignore_errors=True)
    r = sh(["git", "-C", REPO, "worktree", "add", "--detach", wt, "HEAD"])
    if r.returncode != 0:
        print(r.stderr)
        sys.exit(2)
    return wt


def drop(wt):
    sh(["git", "-C", REPO, "worktree", "remove", "--force", wt])
    shutil.rmtree(wt, ignore_errors=True)


def intake(src, name):
    meta = json.load(open(os.path.join(src, "meta.json")))
    demo_path = open(os.path.join(src, "DEMO_PATH.txt")).read().strip()
    wt = worktree("intake-" + name)
    ran = []
    res = {}
    try:
        demo_dst = os.path.join(wt, demo_path)
        pkg = "./" + os.path.dirname(demo_path) + "/"
        shutil.copy(os.path.join(src, "demo_test.go"), demo_dst)
        r = sh(["go", "test", "-vet=off", "-count=1", pkg], cwd=wt, env=goenv())
        ran.append("go test -vet=off -count=1 %s   # demo on unchanged tree" % pkg)
        res["demo_passes_without"] = r.returncode == 0
        os.remove(demo_dst)
        r = sh(["git", "apply", os.path.join(src, "patch.diff")], cwd=wt)
        ran.append("git apply patch.diff")
        res["patch_applies"] = r.returncode == 0
        if r.returncode != 0:
            res["error"] = r.stderr[-500:]
        else:
            r = sh(["go", "build", "./..."], cwd=wt, env=goenv())
            ran.append("go build ./...")
            res["builds"] = r.returncode == 0
            r = sh(["go", "test", "-vet=off", "-count=1", "./..."], cwd=wt, env=goenv())
            ran.append("go test -vet=off -count=1 ./...   # full suite with the change")
            res["suite_passes_with_change"] = r.returncode == 0
            if r.returncode != 0:
                res["suite_out"] = r.stdout[-800:]
            shutil.copy(os.path.join(src, "demo_test.go"), demo_dst)
            r = sh(["go", "test", "-vet=off", "-count=1", pkg], cwd=wt, env=goenv())
            ran.append("go test -vet=off -count=1 %s   # demo with the change" % pkg)
            res["demo_fails_with_change"] = r.returncode != 0
            res["demo_output_tail"] = (r.stdout + r.stderr)[-600:]
    finally:
        drop(wt)
    ok = all(res.get(k) for k in ("demo_passes_without", "patch_applies", "builds", "suite_passes_with_change", "demo_fails_with_change"))
    print(name, "CONFIRMED" if ok else "REJECTED", {k: v for k, v in res.items() if k not in ("demo_output_tail",)})
    if not ok:
        return False
    dst = os.path.join(VERIF, "seeded", name)
    os.makedirs(dst, exist_ok=True)
    shutil.copy(os.path.join(src, "patch.diff"), os.path.join(dst, "patch.diff"))
    shutil.copy(os.path.join(src, "demo_test.go"), os.path.join(dst, "demo_test.go.txt"))
    out = {"property": meta.get("property"), "summary": meta.get("summary"), "needs_to_manifest": meta.get("needs_to_manifest"),
           "demo_path": demo_path, "author": "independent sub-agent (saw only the property text and a scratch worktree)",
           "confirmed_by_me": res, "what_i_ran": ran}
    json.dump(out, open(os.path.join(dst, "meta.json"), "w"), indent=1)
    return True


def intake_neutral(src, name):
    """A behaviour-preserving change: must apply, build (both tags) and pass the suite."""
    meta = json.load(open(os.path.join(src, "meta.json")))
    wt = worktree("intake-" + name)
    res, ran = {}, []
    try:
        r = sh(["git", "apply", os.path.join(src, "patch.diff")], cwd=wt)
        res["patch_applies"] = r.returncode == 0
        if r.returncode == 0:
            r = sh(["go", "build", "./..."], cwd=wt, env=goenv())
            r2 = sh(["go", "build", "-tags", "verif", "./..."], cwd=wt, env=goenv())
            res["builds"] = r.returncode == 0 and r2.returncode == 0
            r = sh(["go", "test", "-vet=off", "-count=1", "./..."], cwd=wt, env=goenv())
            res["suite_passes_with_change"] = r.returncode == 0
            ran = ["git apply patch.diff", "go build ./... (with and without -tags verif)", "go test -vet=off -count=1 ./..."]
    finally:
        drop(wt)
    ok = all(res.get(k) for k in ("patch_applies", "builds", "suite_passes_with_change"))
    print(name, "ACCEPTED" if ok else "REJECTED", res)
    if not ok:
        return False
    dst = os.path.join(VERIF, SEEDDIR, name)
    os.makedirs(dst, exist_ok=True)
    shutil.copy(os.path.join(src, "patch.diff"), os.path.join(dst, "patch.diff"))
    out = {"property": None, "kind": "behaviour-preserving change (must NOT be flagged)", "summary": meta.get("summary"),
           "why_behaviour_preserving": meta.get("why_behaviour_preserving"),
           "what_unconstrained_behaviour_changes": meta.get("what_unconstrained_behaviour_changes"),
           "author": "independent sub-agent (saw the property texts and a scratch worktree only)", "confirmed_by_me": res, "what_i_ran": ran}
    json.dump(out, open(os.path.join(dst, "meta.json"), "w"), indent=1)
    return True


SEEDDIR = "seeded"


def run(names, budget, props):
    names = names or sorted(os.listdir(os.path.join(VERIF, SEEDDIR)))
    table = {}
    for name in names:
        d = os.path.join(VERIF, SEEDDIR, name)
        if not os.path.isfile(os.path.join(d, "patch.diff")):
            continue
        wt = worktree("run-" + name)
        try:
            r = sh(["git", "apply", os.path.join(d, "patch.diff")], cwd=wt)
            if r.returncode != 0:
                print(name, "patch no longer applies:", r.stderr[-300:])
                table[name] = {"error": "patch does not apply"}
                continue
            meta = json.load(open(os.path.join(d, "meta.json")))
            row = {}
            if OWNER_ONLY:
                props = [meta.get("property")]
            for prop in props:
                bdir = os.path.join(SCRATCH, "build")
                env = dict(os.environ)
                env.update({"VERIF_REPO": wt, "VERIF_BUILD": bdir, "VERIF_EVIDENCE_DIR": os.path.join(bdir, "evidence"),
                            "VERIF_REPLAY_DIR": os.path.join(bdir, "replays"), "VERIF_BUDGET": str(budget), "VERIF_RACE_BUDGET": str(budget)})
                t0 = time.time()
                r = sh([os.path.join(VERIF, "check"), prop, "quick"], env=env)
                lines = [l for l in r.stdout.splitlines() if l.startswith(("violation:", "HARNESS"))]
                row[prop] = {"rc": r.returncode, "s": round(time.time() - t0, 1), "first": (lines[0][:400] if lines else "")}
            caught = [p for p in props if row[p]["rc"] == 1]
            table[name] = row
            if OWNER_ONLY:
                print("%-12s owner=%s caught=%s %s" % (name, meta.get("property"), caught, row[props[0]]["first"][:160]), flush=True)
                if SAVE_OWNER:
                    meta["checks_quick"] = {"budget_s": budget, "result": row, "caught_by": caught, "only_the_owning_check_was_run": True,
                                            "commit_of_verif": sh(["git", "-C", VERIF, "rev-parse", "--short", "HEAD"]).stdout.strip()}
                    json.dump(meta, open(os.path.join(d, "meta.json"), "w"), indent=1)
                continue
            meta["checks_quick"] = {"budget_s": budget, "result": row, "caught_by": caught, "commit_of_verif": sh(["git", "-C", VERIF, "rev-parse", "--short", "HEAD"]).stdout.strip()}
            json.dump(meta, open(os.path.join(d, "meta.json"), "w"), indent=1)
            print("%-8s owner=%s caught_by=%s %s" % (name, meta.get("property"), caught, [p for p in props if row[p]["rc"] not in (0, 1)]), flush=True)
            for p in caught:
                print("     ", p, row[p]["first"][:200])
        finally:
            drop(wt)
    shutil.rmtree(SCRATCH, ignore_errors=True)


OWNER_ONLY = False
SAVE_OWNER = False

if __name__ == "__main__":
    a = sys.argv[1:]
    if "--owner-only" in a:
        OWNER_ONLY = True
        a.remove("--owner-only")
    if "--save" in a:
        SAVE_OWNER = True
        a.remove("--save")
    if "--dir" in a:
        i = a.index("--dir")
        SEEDDIR = a[i + 1]
        del a[i:i + 2]
    if a[0] == "intake":
        sys.exit(0 if intake(a[1], a[2]) else 1)
    if a[0] == "intake-neutral":
        sys.exit(0 if intake_neutral(a[1], a[2]) else 1)
    budget, props, names = 10, PROPS, []
    i = 1
    while i < len(a):
        if a[i] == "--budget":
            budget = int(a[i + 1]); i += 2
        elif a[i] == "--props":
            props = a[i + 1].split(","); i += 2
        else:
            names.append(a[i]); i += 1
    run(names, budget, props)
