#!/usr/bin/env python3
"""Sensitivity set: deliberate property-breaking edits (DESIGN.md Appendix B).

usage: tools/mutants.py [--jobs N] [--only ID ...] [--budget S] [--no-suite]

Each mutant is applied to a scratch git worktree of /repo (never to /repo
itself), must compile, should pass the repository's own test suite, and is then
given to the owning check's quick tier (VERIF_REPO=<worktree>). Results go to
/verif/tools/mutants_result.json.
"""
import json, os, subprocess, sys, shutil, time, concurrent.futures as cf

REPO = "/repo"
VERIF = os.path.dirname(os.path.dirname(os.path.abspath(__file__)))
SCRATCH = "/tmp/verif-mutants-%d" % os.getpid()

D = "internal/dockerlog/dockerlog.go"
DL = "internal/dockerlog/daemonlog.go"
MI = "internal/dockerlog/merge_iter.go"
LB = "internal/logql/label.go"
ES = "internal/logql/logqlengine/eval_streams.go"
EN = "internal/logql/logqlengine/engine.go"
PC = "internal/logql/logqlengine/precondition.go"
AL = "internal/logql/logqlengine/aggregated_labels.go"
LS = "internal/logql/logqlengine/label_set.go"
SA = "internal/logql/logqlengine/sampler.go"
LM = "internal/logql/logqlengine/logqlmetric/logqlmetric.go"
BD = "internal/logql/logqlengine/logqlmetric/build.go"
BO = "internal/logql/logqlengine/logqlmetric/bin_op.go"
RA = "internal/logql/logqlengine/logqlmetric/range_agg.go"
PA = "cmd/docker-logql/params.go"
QY = "cmd/docker-logql/query.go"

# (id, [properties expected to catch], [(file, old, new), ...], note)
M = [
 ("C02-1", ["C02"], [(D, "case logql.OpEq:\n\t\treturn s == m.Value", "case logql.OpEq:\n\t\treturn strings.HasPrefix(s, m.Value)")], "= as prefix match"),
 ("C02-2", ["C02"], [(D, "return s != m.Value", "return s == m.Value")], "!= back to =="),
 ("C02-3", ["C02"], [(D, "case logql.OpRe:\n\t\treturn m.Re.MatchString(s)\n\tcase logql.OpNotRe:\n\t\treturn !m.Re.MatchString(s)", "case logql.OpRe:\n\t\treturn !m.Re.MatchString(s)\n\tcase logql.OpNotRe:\n\t\treturn m.Re.MatchString(s)")], "regex ops swapped"),
 ("C02-4", ["C02"], [(LB, 'regexp.Compile("^(?:" + re + ")$")', "regexp.Compile(re)")], "unanchored label regex"),
 ("C02-5", ["C02"], [(D, "\t\tvalue := c.labels[string(matcher.Label)]\n", "\t\tvalue, ok := c.labels[string(matcher.Label)]\n\t\tif !ok {\n\t\t\treturn false\n\t\t}\n")], "missing label is a non-match again"),
 ("C02-6a", ["C02"], [(D, "since = strconv.FormatInt(t.Unix(), 10)", "since = strconv.FormatInt(t.UnixMilli(), 10)")], "since in ms"),
 ("C02-6b", ["C02"], [(D, "until = strconv.FormatInt(t.Unix(), 10)", "until = strconv.FormatInt(t.Unix()+1, 10)")], "until rounded up"),
 ("C02-6c", ["C02"], [(D, "Since:      since,\n\t\tUntil:      until,", "Since:      until,\n\t\tUntil:      since,")], "since/until swapped"),
 ("C02-6d", ["C02"], [(D, "\t\tUntil:      until,\n", "\t\tUntil:      func() string { _ = until; return \"\" }(),\n")], "until omitted"),
 ("C02-7a", ["C02", "C03"], [(D, "Timestamps: true,", "Timestamps: false,")], "no timestamps"),
 ("C02-7b", ["C02"], [(D, "ShowStderr: true,", "ShowStderr: false,")], "stderr dropped"),
 ("C02-7c", ["C02"], [(D, 'Tail:       "all",', 'Tail:       "100",')], "tail 100"),
 ("C02-8", ["C02"], [(D, "All: true,", "All: false,")], "only running containers"),
 ("C02-9a", ["C02"], [(D, 'name = strings.TrimPrefix(ctr.Names[0], "/")', "name = strings.TrimPrefix(ctr.Names[0], \"\")")], "leading slash kept"),
 ("C02-9b", ["C02"], [(D, '"container_image":    ctr.Image,', '"container_image":    ctr.ImageID,')], "image label from image id"),
 ("C02-9c", ["C02"], [(D, "labels[otelstorage.KeyToLabel(label)] = value", "labels[label] = value")], "docker label keys not sanitised"),
 ("C02-10a", ["C02"], [(ES, "params.Start = addDuration(params.Start, e.lookbackDuration)", "params.Start = addDuration(params.Start, -e.lookbackDuration)")], "lookback sign flipped"),
 ("C02-10b", ["C02"], [(BD, "start = start.Add(-o.Duration)\n\t\t\tend = end.Add(-o.Duration)", "start = start.Add(o.Duration)\n\t\t\tend = end.Add(o.Duration)")], "offset added"),
 ("C02-11", ["C02"], [(PC, "\t\t\tcond.params.Labels = append(cond.params.Labels, lm)\n\t\t\tcontinue", "\t\t\tcontinue")], "offloaded matcher dropped"),
 ("C02-12", [], [(D, "iters[idx] = iter", "iters[len(containers)-1-idx] = iter")], "NEUTRAL: readers stored at mirrored index (labels travel with the reader; tie order changes, but identically under every schedule)"),
 ("C03-1a", ["C03"], [(DL, "if _, err := io.ReadFull(i.rd, i.header[:]); err != nil {", "if _, err := i.rd.Read(i.header[:]); err != nil {")], "header with a single Read"),
 ("C03-2a", ["C03"], [(DL, "binary.BigEndian.Uint32(i.header[4:8])", "binary.LittleEndian.Uint32(i.header[4:8])")], "little endian size"),
 ("C03-2b", ["C03"], [(DL, "binary.BigEndian.Uint32(i.header[4:8])", "binary.BigEndian.Uint32(i.header[0:4])")], "size from wrong bytes"),
 ("C03-3", ["C03"], [(DL, "\ti.buf.Reset()\n", "")], "buffer not reset"),
 ("C03-4a", ["C03"], [(DL, 'rawTimestamp, line, ok := strings.Cut(input, " ")\n\tif !ok {', 'idx := strings.LastIndex(input, " ")\n\tok := idx >= 0\n\tvar rawTimestamp, line string\n\tif ok {\n\t\trawTimestamp, line = input[:idx], input[idx+1:]\n\t}\n\tif !ok {')], "split at last space"),
 ("C03-4b", ["C03"], [(DL, "r.Body = line", "r.Body = strings.TrimSpace(line)")], "line trimmed"),
 ("C03-4c", ["C03"], [(DL, "r.Body = line", 'r.Body = strings.TrimRight(line, "\\n")')], "trailing newline trimmed"),
 ("C03-5a", ["C03"], [(DL, "if typ == systemerr {", "if typ >= stderr {")], "stderr frames treated as daemon errors"),
 ("C03-6", ["C03"], [(DL, "r.ObservedTimestamp = otelstorage.NewTimestampFromTime(ts)", "r.ObservedTimestamp = otelstorage.NewTimestampFromTime(ts.Truncate(time.Microsecond))")], "microsecond truncation"),
 ("C03-7", ["C03", "C14"], [(DL, 'if _, err := io.CopyN(&i.buf, i.rd, int64(frameSize)); err != nil {\n\t\treturn false, errors.Wrap(err, "read message")', 'if _, err := io.CopyN(&i.buf, i.rd, int64(frameSize)); err != nil {\n\t\tif err == io.EOF {\n\t\t\treturn false, nil\n\t\t}\n\t\treturn false, errors.Wrap(err, "read message")')], "EOF in body is a clean end"),
 ("C03-8", ["C03"], [(DL, "case io.EOF, io.ErrUnexpectedEOF:", "case io.EOF:")], "EOF inside header is an error"),
 ("C03-9", ["C03", "C14"], [(DL, "\tif typ == systemerr {\n\t\treturn false, errors.Errorf(\"daemon log stream error: %q\", &i.buf)\n\t}\n", "")], "system error frames not checked"),
 ("C03-10", ["C03", "C14"], [(DL, "\tif i.err != nil {\n\t\t// Keep the first error: do not read past a failure.\n\t\treturn false\n\t}\n\n", "")], "error not sticky again"),
 ("C04-1a", ["C04"], [(MI, "return a.record.Timestamp < b.record.Timestamp", "return a.record.Timestamp > b.record.Timestamp")], "heap reversed"),
 ("C04-1b", ["C04"], [(MI, "return a.record.Timestamp < b.record.Timestamp", "return len(a.record.Body) < len(b.record.Body)")], "heap by body length"),
 ("C04-2a", ["C04"], [(MI, "\t\theap.Push(&i.heap, e)\n\t\treturn true\n\tcase iter.Err() != nil:", "\t\treturn true\n\tcase iter.Err() != nil:")], "no re-push"),
 ("C04-3a", ["C04"], [(MI, "for idx, iter := range i.iters {\n\t\tif !iter.Next(&record) {\n\t\t\tcontinue\n\t\t}", "for idx, iter := range i.iters {\n\t\tif idx == 0 && len(i.iters) > 2 {\n\t\t\tcontinue\n\t\t}\n\t\tif !iter.Next(&record) {\n\t\t\tcontinue\n\t\t}")], "init skips first source when >2"),
 ("C04-3b", ["C04"], [(MI, "\t\tif !iter.Next(&record) {\n\t\t\tcontinue\n\t\t}\n\t\theap.Push", "\t\tif !iter.Next(&record) {\n\t\t\tbreak\n\t\t}\n\t\theap.Push")], "init stops at first empty source"),
 ("C04-4", ["C04", "C18"], [(D, "\t\tvar grp errgroup.Group\n", "\t\tvar grp errgroup.Group\n\t\tvar mu sync.Mutex\n\t\titers = iters[:0]\n"), (D, "\t\t\t\titers[idx] = iter\n", "\t\t\t\tmu.Lock()\n\t\t\t\titers = append(iters, iter)\n\t\t\t\tmu.Unlock()\n"), (D, 'import (\n\t"context"', 'import (\n\t"context"\n\t"sync"'), (D, "for idx, ctr := range containers {", "for _, ctr := range containers {")], "results appended in completion order"),
 ("C10-1", ["C10", "C18"], [(AL, "\tslices.SortFunc(labels, func(a, b labelEntry) int {\n\t\treturn strings.Compare(a.name, b.name)\n\t})\n", "\t_ = slices.Contains[[]int]\n\t_ = strings.Compare\n")], "entries not sorted again"),
 ("C10-2a", ["C10"], [(AL, "\t\twrite(k)\n\t\twrite(v)\n", "\t\twrite(k)\n\t\t_ = v\n")], "key hashes names only"),
 ("C10-2b", ["C10"], [(AL, "\t\twrite(k)\n\t\twrite(v)\n", "\t\t_ = k\n\t\twrite(v)\n")], "key hashes values only"),
 ("C10-2c", ["C10"], [(AL, "\t\tbinary.LittleEndian.PutUint64(size[:], uint64(len(s)))\n\t\t_, _ = h.Write(size[:])\n", "\t\tbinary.LittleEndian.PutUint64(size[:], uint64(len(s)))\n")], "key without separators again"),
 ("C10-3", ["C10"], [(LM, "\t\t\tkey := s.Set.Key()\n\t\t\tser, ok := matrixSeries[key]", "\t\t\tkey := s.Set.Key()\n\t\t\tif api := s.Set.AsLokiAPI(); len(api) > 0 {\n\t\t\t\tkey = uint64(len(api))\n\t\t\t}\n\t\t\tser, ok := matrixSeries[key]")], "matrix series keyed by label count"),
 ("C10-4", ["C10"], [(AL, "by:      buildSet(maps.Clone(a.by), labels...),", "by:      buildSet(a.by, labels...),"), (AL, "without: buildSet(maps.Clone(a.without), labels...),", "without: buildSet(func() map[string]struct{} { _ = maps.Clone[map[string]struct{}]; return a.without }(), labels...),")], "By/Without share the mutable grouping set (reachable through without-over-without on an unwrap range)"),
 ("C14-1", ["C14"], [(D, "\t\t\tif rerr != nil {\n\t\t\t\tfor _, iter := range iters {", "\t\t\tif rerr != nil && false {\n\t\t\t\tfor _, iter := range iters {")], "SelectLogs cleanup removed"),
 ("C14-2", ["C14"], [(ES, "\tdefer func() {\n\t\t_ = iter.Close()\n\t}()\n\treturn groupEntries(iter)", "\treturn groupEntries(iter)")], "evalLogExpr never closes"),
 ("C14-3", ["C14"], [(EN, "\t\tdefer func() {\n\t\t\t_ = iter.Close()\n\t\t}()\n", "")], "metric path never closes again"),
 ("C14-5a", ["C14"], [(MI, "\tfor _, iter := range i.iters {\n\t\tmultierr.AppendInto(&rerr, iter.Close())\n\t}", "\tfor _, iter := range i.iters[:len(i.iters)-1] {\n\t\tmultierr.AppendInto(&rerr, iter.Close())\n\t}")], "merge Close skips last source"),
 ("C14-6a", ["C14"], [(MI, "\tfor _, iter := range i.iters {\n\t\tmultierr.AppendInto(&rerr, iter.Err())\n\t}", "\tmultierr.AppendInto(&rerr, i.iters[0].Err())")], "merge Err looks at first source only"),
 ("C14-6b", [], [(MI, "\tcase iter.Err() != nil:\n\t\t// Return an error, if read failed.\n\t\treturn false\n", "")], "NEUTRAL: merge Next ignores the source error; Err() still aggregates it, the query still fails"),
 ("C14-7a", ["C14"], [(ES, "\tif err := iter.Err(); err != nil {\n\t\treturn s, err\n\t}\n", "")], "groupEntries ignores Err"),
 ("C14-7b", ["C14"], [(LM, "\tif err := iter.Err(); err != nil {\n\t\treturn s, err\n\t}\n\n\ts.SetMatrixResult", "\ts.SetMatrixResult")], "ReadStepResponse ignores final Err"),
 ("C14-7c", ["C14"], [(LM, "\t\t\tif err := iter.Err(); err != nil {\n\t\t\t\treturn s, err\n\t\t\t}\n", "")], "instant ReadStepResponse ignores Err"),
 ("C14-8a", ["C14"], [(BD, "\t\tdefer closeOnError(left)\n", "")], "binop left not closed on error"),
 ("C14-8b", ["C14"], [(BD, "\t\tdefer closeOnError(iter)\n\n\t\treturn RangeAggregation", "\t\treturn RangeAggregation")], "range agg iter not closed on build error"),
 ("C14-8c", [], [(BD, "\t\tdefer closeOnError(iter)\n\n\t\treturn VectorAggregation", "\t\treturn VectorAggregation")], "UNREACHABLE: VectorAggregation cannot fail for a query the parser accepts"),
 ("C14-9a", ["C14"], [(BO, "func (i *binOpIterator) Err() error {\n\treturn multierr.Append(\n\t\ti.left.Err(),\n\t\ti.right.Err(),\n\t)", "func (i *binOpIterator) Err() error {\n\treturn multierr.Append(\n\t\ti.left.Err(),\n\t\tnil,\n\t)")], "binop Err left only"),
 ("C14-9b", ["C14"], [(BO, "func (i *binOpIterator) Close() error {\n\treturn multierr.Append(\n\t\ti.left.Close(),\n\t\ti.right.Close(),\n\t)", "func (i *binOpIterator) Close() error {\n\treturn multierr.Append(\n\t\ti.left.Close(),\n\t\tnil,\n\t)")], "binop Close left only"),
 ("C14-9c", ["C14"], [(BO, "func (i *literalBinOpIterator) Close() error {\n\treturn i.iter.Close()", "func (i *literalBinOpIterator) Close() error {\n\treturn nil")], "literal binop Close no-op"),
 ("C14-9d", ["C14"], [(BO, "func (i *mergeBinOpIterator) Err() error {\n\treturn multierr.Append(\n\t\ti.left.Err(),\n\t\ti.right.Err(),\n\t)", "func (i *mergeBinOpIterator) Err() error {\n\treturn i.left.Err()")], "merge binop Err left only"),
 ("C14-10", ["C14", "C03"], [(DL, '\t\tdefault:\n\t\t\treturn false, errors.Wrap(err, "read header")', "\t\tdefault:\n\t\t\treturn false, nil")], "header read error is a clean end"),
 ("C14-11", ["C14"], [(D, "\t\tif err := grp.Wait(); err != nil {\n\t\t\treturn nil, err\n\t\t}", "\t\t_ = grp.Wait()")], "open errors ignored"),
 ("C14-12", ["C14"], [(ES, "func (i *entryIterator) Close() error {\n\treturn i.iter.Close()", "func (i *entryIterator) Close() error {\n\tif i.entries == 0 {\n\t\treturn nil\n\t}\n\treturn i.iter.Close()")], "entry iterator not closed when nothing matched"),
 ("C14-13", ["C14"], [(RA, "func (i *rangeAggIterator) Err() error {\n\treturn i.iter.Err()", "func (i *rangeAggIterator) Err() error {\n\treturn nil")], "range agg swallows errors"),
 ("C16-1a", ["C16"], [(PA, "since := 6 * time.Hour", "since := 1 * time.Hour")], "default since 1h"),
 ("C16-1b", ["C16"], [(PA, "start, err = parseTimestamp(startValue, endOrNow.Add(-since))", "_ = endOrNow\n\tstart, err = parseTimestamp(startValue, end.Add(-since))")], "start from end, not min(end, now)"),
 ("C16-1c", ["C16"], [(PA, "if end.After(now) {", "if end.Before(now) {")], "min turned into max"),
 ("C16-2a", ["C16"], [(PA, "if len(value) <= 10 {", "if len(value) < 10 {")], "10-digit seconds read as nanoseconds"),
 ("C16-2b", ["C16"], [(PA, "return time.Unix(0, nanos), nil", "return time.Unix(0, nanos/1000), nil")], "ns branch divides"),
 ("C16-3a", ["C16"], [(QY, "\t\t\t\t*start.Val,\n\t\t\t\t*end.Val,", "\t\t\t\t*end.Val,\n\t\t\t\t*start.Val,")], "start/end flags swapped"),
 ("C16-3b", ["C16"], [(QY, "\t\t\t\ttime.Now(),", "\t\t\t\ttime.Now().Add(-time.Hour),")], "clock read an hour early"),
 ("C16-4a", ["C16"], [(PA, "\tif d <= 0 {\n\t\treturn 0, errors.Errorf(\"step must be positive, got %q\", v)\n\t}\n", "")], "step <= 0 accepted again"),
 ("C16-4b", ["C16"], [(PA, '\t\tif err != nil {\n\t\t\treturn start, end, errors.Wrap(err, "parse since")\n\t\t}\n\t\tsince = time.Duration(d)', "\t\tif err == nil {\n\t\t\tsince = time.Duration(d)\n\t\t}")], "malformed since falls back to 6h"),
 ("C16-4c", ["C16"], [(PA, "\t\treturn time.Parse(time.RFC3339Nano, value)", "\t\tif t, perr := time.Parse(time.RFC3339Nano, value); perr == nil {\n\t\t\treturn t, nil\n\t\t}\n\t\treturn def, nil")], "malformed timestamp falls back to default"),
 ("C16-5", [], [(PA, "ns = math.Round(ns*1000) / 1000", "ns = math.Floor(ns*1000) / 1000")], "EXPECTED SURVIVOR: sub-second rounding, not observable at the seam"),
 ("C18-2", ["C18"], [(D, "\t\tvar grp errgroup.Group\n", "\t\tvar grp errgroup.Group\n\t\topened := 0\n"), (D, "\t\t\t\titers[idx] = iter\n", "\t\t\t\titers[idx] = iter\n\t\t\t\topened++\n"), (D, "\t\treturn newMergeIter(iters), nil", "\t\t_ = opened\n\t\treturn newMergeIter(iters), nil")], "unsynchronised counter in openers"),
 ("C18-3", ["C18", "C04"], [(LS, "\tkeys = verifOrder(keys)\n\tslices.Sort(keys)\n", "\tkeys = verifOrder(keys)\n\t_ = slices.Contains[[]int]\n")], "stream key without sort"),
 ("C18-5", ["C18"], [(QY, "\t\tslices.SortFunc(entries, func(a, b entry) int {\n\t\t\treturn cmp.Compare(a.T, b.T)\n\t\t})\n", "\t\t_ = cmp.Compare[int]\n\t\t_ = slices.Contains[[]int]\n")], "renderResult without sort"),
 ("N-6", [], [(DL, "\trd     io.ReadCloser\n", "\trd     io.ReadCloser\n\tbr     *bufio.Reader\n"), (DL, "\t\trd:       f,\n", "\t\trd:       f,\n\t\tbr:       bufio.NewReaderSize(f, 4096),\n"), (DL, "io.ReadFull(i.rd, i.header[:])", "io.ReadFull(i.br, i.header[:])"), (DL, "io.CopyN(&i.buf, i.rd, int64(frameSize))", "io.CopyN(&i.buf, i.br, int64(frameSize))"), (DL, 'import (\n\t"bytes"', 'import (\n\t"bufio"\n\t"bytes"')], "NEUTRAL: stream read through a (correct) 4 KiB bufio.Reader - read-ahead"),
 ("N-7", [], [(D, "\t\tvar grp errgroup.Group\n\t\tfor idx, ctr := range containers {\n\t\t\tctr := ctr\n\t\t\tgrp.Go(func() error {", "\t\tvar grp errgroup.Group\n\t\tgrp.SetLimit(1)\n\t\tfor idx, ctr := range containers {\n\t\t\tctr := ctr\n\t\t\tgrp.Go(func() error {")], "NEUTRAL: opens serialised (errgroup limit 1)"),
 ("N-8", [], [(MI, "\tdefault:\n\t\t// heap.Pop removed drained iterator from heap.\n\t\treturn true", "\tdefault:\n\t\t// heap.Pop removed drained iterator from heap.\n\t\t_ = iter.Close()\n\t\treturn true")], "NEUTRAL: drained sources closed early (and again at the end)"),
 ("N-9", [], [(ES, "\t\tif !i.iter.Next(&record) || (i.limit > 0 && i.entries >= i.limit) {", "\t\tif (i.limit > 0 && i.entries >= i.limit) || !i.iter.Next(&record) {")], "NEUTRAL: limit checked before pulling the next record (no read past the limit)"),
 ("N-10", [], [(AL, "\tset.Range(func(l logql.Label, v pcommon.Value) {\n", "\tset.Range(func(l logql.Label, v pcommon.Value) {\n\t\tif v.AsString() == \"\" {\n\t\t\t// Prometheus semantics: an empty label is no label.\n\t\t\treturn\n\t\t}\n")], "NEUTRAL: metric samples drop empty-valued labels consistently (key and reported set)"),
 ("N-11", [], [(D, "since = strconv.FormatInt(t.Unix(), 10)", "since = t.Truncate(time.Second).UTC().Format(time.RFC3339)"), (D, 'import (\n\t"context"', 'import (\n\t"context"\n\t"time"')], "NEUTRAL: since spelled as RFC 3339 of the truncated instant"),
 ("N-12", [], [(BD, '\t\tleft, err := build(expr.Left, sel, params)\n\t\tif err != nil {\n\t\t\treturn nil, err\n\t\t}\n\t\tdefer closeOnError(left)\n\n\t\tright, err := build(expr.Right, sel, params)\n\t\tif err != nil {\n\t\t\treturn nil, err\n\t\t}\n\t\tdefer closeOnError(right)\n', '\t\tvar (\n\t\t\tleft, right StepIterator\n\t\t\tlerr, rerr2 error\n\t\t\twg          sync.WaitGroup\n\t\t)\n\t\twg.Add(2)\n\t\tgo func() {\n\t\t\tdefer wg.Done()\n\t\t\tleft, lerr = build(expr.Left, sel, params)\n\t\t}()\n\t\tgo func() {\n\t\t\tdefer wg.Done()\n\t\t\tright, rerr2 = build(expr.Right, sel, params)\n\t\t}()\n\t\twg.Wait()\n\t\tif lerr != nil || rerr2 != nil {\n\t\t\tif left != nil {\n\t\t\t\t_ = left.Close()\n\t\t\t}\n\t\t\tif right != nil {\n\t\t\t\t_ = right.Close()\n\t\t\t}\n\t\t\tif lerr != nil {\n\t\t\t\treturn nil, lerr\n\t\t\t}\n\t\t\treturn nil, rerr2\n\t\t}\n\t\tdefer closeOnError(left)\n\t\tdefer closeOnError(right)\n'), (BD, 'import (\n\t"fmt"', 'import (\n\t"fmt"\n\t"sync"')], "NEUTRAL: the two operands of a binary operation are built concurrently (the TODO in build.go)"),
 ("N-13", [], [(ES, "\tentries int\n\tlimit   int\n}", "\tentries int\n\tlimit   int\n\n\tstart, end otelstorage.Timestamp\n}"), (ES, "\t\tts := record.Timestamp\n", "\t\tts := record.Timestamp\n\t\tif int64(ts) < int64(i.start) || int64(ts) > int64(i.end) {\n\t\t\t// The storage is asked for whole seconds: drop what lies outside the exact range\n\t\t\t// (signed comparison: a window may begin before 1970).\n\t\t\tcontinue\n\t\t}\n"), (ES, "\t\tlimit:     params.Limit,\n\t}, nil", "\t\tlimit:     params.Limit,\n\t\tstart:     params.Start,\n\t\tend:       params.End,\n\t}, nil")], "NEUTRAL: the engine filters entries to the exact [start, end] of the selection"),
 ("N-14", [], [(ES, "func (e *Engine) evalLogExpr(ctx context.Context, expr *logql.LogExpr, params EvalParams) (s lokiapi.Streams, _ error) {", "func (e *Engine) evalLogExpr(ctx context.Context, expr *logql.LogExpr, params EvalParams) (s lokiapi.Streams, rerr error) {"), (ES, "\tdefer func() {\n\t\t_ = iter.Close()\n\t}()\n\treturn groupEntries(iter)", "\tdefer func() {\n\t\tif cerr := iter.Close(); cerr != nil && rerr == nil {\n\t\t\trerr = errors.Wrap(cerr, \"close\")\n\t\t}\n\t}()\n\treturn groupEntries(iter)")], "NEUTRAL: a failing Close of the log readers is reported as the query's error"),
 ("N-1", [], [(MI, "return a.record.Timestamp < b.record.Timestamp", "return a.record.Timestamp <= b.record.Timestamp")], "NEUTRAL? heap Less with <= (changes tie order deterministically)"),
 ("N-2", [], [(D, "\t\tvar grp errgroup.Group\n", "\t\tvar grp errgroup.Group\n\t\tgrp.SetLimit(2)\n")], "NEUTRAL: errgroup limit 2"),
 ("N-3", [], [(DL, "\ti.buf.Reset()\n", "\ti.buf.Reset()\n\ti.buf.Grow(4096)\n")], "NEUTRAL: buffer pre-grown"),
 ("N-4", [], [(ES, "\tdefer func() {\n\t\t_ = iter.Close()\n\t}()\n\treturn groupEntries(iter)", "\tdefer func() {\n\t\t_ = iter.Close()\n\t\t_ = iter.Close()\n\t}()\n\treturn groupEntries(iter)")], "NEUTRAL: closing twice"),
 ("N-5", [], [(ES, "\tresult := maps.Values(streams)\n", "\tresult := maps.Values(streams)\n\tslices.SortFunc(result, func(a, b lokiapi.Stream) int { return cmp.Compare(len(a.Values), len(b.Values)) })\n")], "NEUTRAL: streams pre-sorted"),
 ("E-1", ["C10", "C18"], [(EN, "\ttracer trace.Tracer\n}\n", "\ttracer trace.Tracer\n\n\tgroupSets sync.Map\n}\n"), (EN, "import (\n", "import (\n\t\"sync\"\n"),
   (SA, "import (\n", "import (\n\t\"fmt\"\n"),
   (SA, "\t\treturn newSampleIterator(iter, expr)\n", "\t\tsi, err := newSampleIterator(iter, expr)\n\t\tif err != nil {\n\t\t\treturn nil, err\n\t\t}\n\t\tkey := fmt.Sprint(qrange.Sel.Matchers)\n\t\tif c, ok := e.groupSets.Load(key); ok {\n\t\t\tg := c.([2]map[string]struct{})\n\t\t\tsi.by, si.without = g[0], g[1]\n\t\t} else {\n\t\t\te.groupSets.Store(key, [2]map[string]struct{}{si.by, si.without})\n\t\t}\n\t\treturn si, nil\n")],
  "Engine-level memo of a range aggregation's grouping sets per selector: shows only when one long-lived Engine evaluates a differently grouped query over the same selection first (Variant.Warmup)"),
 ("E-2", ["C14"], [(D, "type Querier struct {\n\tclient client.APIClient\n}", "type Querier struct {\n\tclient client.APIClient\n\n\t// unreadable remembers containers whose log could not be opened.\n\tunreadable sync.Map\n}"), (D, "import (\n", "import (\n\t\"sync\"\n"),
   (D, "\t\t\tgrp.Go(func() error {\n\t\t\t\titer, err := q.openLog(ctx, ctr, start, end)\n\t\t\t\tif err != nil {\n", "\t\t\tgrp.Go(func() error {\n\t\t\t\tif _, bad := q.unreadable.Load(ctr.ID); bad {\n\t\t\t\t\titers[idx] = emptyLogIter{}\n\t\t\t\t\treturn nil\n\t\t\t\t}\n\t\t\t\titer, err := q.openLog(ctx, ctr, start, end)\n\t\t\t\tif err != nil {\n\t\t\t\t\tq.unreadable.Store(ctr.ID, true)\n"),
   (D, "func (q *Querier) openLog(", "type emptyLogIter struct{}\n\nfunc (emptyLogIter) Next(*logstorage.Record) bool { return false }\nfunc (emptyLogIter) Err() error                  { return nil }\nfunc (emptyLogIter) Close() error                { return nil }\n\nfunc (q *Querier) openLog(")],
  "circuit breaker on the Querier: a container whose log request failed once is skipped (treated as empty) by later selections - the first evaluation reports the error, a later one on the same Engine silently lacks that container (clause v: after faults stop)"),
]


def sh(cmd, cwd=None, env=None, timeout=None):
    return subprocess.run(cmd, cwd=cwd, env=env, capture_output=True, text=True, timeout=timeout)


def goenv():
    e = dict(os.environ)
    e.update({"GOFLAGS": "-mod=mod", "GOPROXY": "off", "GOSUMDB": "off"})
    return e


def run_mutant(slot, m, budget, suite, workers):
    mid, props, edits, note = m
    wt = os.path.join(SCRATCH, "slot%d" % slot)
    res = {"id": mid, "note": note, "expected": props}
    sh(["git", "checkout", "--", "."], cwd=wt)
    for f, old, new in edits:
        p = os.path.join(wt, f)
        s = open(p).read()
        if s.count(old) != 1:
            res["status"] = "PATCH-FAILED (%d matches in %s)" % (s.count(old), f)
            return res
        open(p, "w").write(s.replace(old, new))
    r = sh(["go", "build", "./..."], cwd=wt, env=goenv())
    if r.returncode != 0:
        res["status"] = "DOES-NOT-COMPILE: " + (r.stderr or r.stdout)[-400:]
        sh(["git", "checkout", "--", "."], cwd=wt)
        return res
    if suite:
        r = sh(["go", "test", "-vet=off", "-count=1", "./..."], cwd=wt, env=goenv())
        res["suite_passes"] = r.returncode == 0
        if r.returncode != 0:
            res["suite_output"] = "\n".join(l for l in r.stdout.splitlines() if l.startswith(("FAIL", "---")))[:600]
    caught = {}
    allprops = props or ["C02", "C03", "C04", "C10", "C14", "C16", "C18"]
    for prop in allprops:
        env = dict(os.environ)
        bdir = os.path.join(SCRATCH, "build%d" % slot)
        env.update({"VERIF_REPO": wt, "VERIF_BUILD": bdir, "VERIF_EVIDENCE_DIR": os.path.join(bdir, "evidence"),
                    "VERIF_REPLAY_DIR": os.path.join(bdir, "replays"), "VERIF_BUDGET": str(budget), "VERIF_RACE_BUDGET": str(budget),
                    "VERIF_WORKERS_N": str(workers)})
        t0 = time.time()
        r = sh([os.path.join(VERIF, "check"), prop, "quick"], env=env)
        lines = [l for l in r.stdout.splitlines() if l.startswith(("violation:", "VIOLATION", "HARNESS"))]
        caught[prop] = {"rc": r.returncode, "s": round(time.time() - t0, 1), "lines": [l[:300] for l in lines[:3]]}
    res["checks"] = caught
    hit = [p for p, c in caught.items() if c["rc"] == 1]
    trouble = [p for p, c in caught.items() if c["rc"] not in (0, 1)]
    if trouble:
        res["status"] = "HARNESS-TROUBLE " + ",".join(trouble)
    elif hit:
        res["status"] = "CAUGHT by " + ",".join(hit)
    else:
        res["status"] = "SURVIVED"
    sh(["git", "checkout", "--", "."], cwd=wt)
    return res


def main():
    args = sys.argv[1:]
    if "--help" in args or "-h" in args:
        print(__doc__)
        return
    jobs, budget, suite, only = 4, 8, True, []
    i = 0
    while i < len(args):
        if args[i] == "--jobs":
            jobs = int(args[i + 1]); i += 2
        elif args[i] == "--budget":
            budget = int(args[i + 1]); i += 2
        elif args[i] == "--no-suite":
            suite = False; i += 1
        elif args[i] == "--only":
            only = args[i + 1:]; break
        else:
            i += 1
    muts = [m for m in M if not only or m[0] in only or any(m[0].startswith(o) for o in only)]
    os.makedirs(SCRATCH, exist_ok=True)
    for s in range(jobs):
        wt = os.path.join(SCRATCH, "slot%d" % s)
        if not os.path.isdir(wt):
            r = sh(["git", "-C", REPO, "worktree", "add", "--detach", wt, "HEAD"])
            if r.returncode != 0:
                print(r.stderr); sys.exit(2)
        else:
            sh(["git", "checkout", "--detach", subprocess.run(["git", "-C", REPO, "rev-parse", "HEAD"], capture_output=True, text=True).stdout.strip()], cwd=wt)
            sh(["git", "checkout", "--", "."], cwd=wt)
    workers = max(2, (os.cpu_count() or 4) // jobs)
    results = []
    import queue, threading
    q = queue.Queue()
    for m in muts:
        q.put(m)
    lock = threading.Lock()

    def worker(slot):
        while True:
            try:
                m = q.get_nowait()
            except queue.Empty:
                return
            r = run_mutant(slot, m, budget, suite, workers)
            with lock:
                results.append(r)
                print("%-8s %-60s suite=%s  %s" % (r["id"], r["note"][:60], r.get("suite_passes"), r["status"]), flush=True)

    ths = [threading.Thread(target=worker, args=(s,)) for s in range(jobs)]
    [t.start() for t in ths]
    [t.join() for t in ths]
    rpath = os.path.join(VERIF, "tools", "mutants_result.json")
    if only and os.path.isfile(rpath):
        # a partial run updates the recorded table instead of replacing it
        old = {r["id"]: r for r in json.load(open(rpath))}
        for r in results:
            old[r["id"]] = r
        results = list(old.values())
    results.sort(key=lambda r: r["id"])
    json.dump(results, open(rpath, "w"), indent=1)
    for s in range(jobs):
        wt = os.path.join(SCRATCH, "slot%d" % s)
        sh(["git", "-C", REPO, "worktree", "remove", "--force", wt])
    shutil.rmtree(SCRATCH, ignore_errors=True)
    surv = [r["id"] for r in results if r["status"] == "SURVIVED" and r["expected"]]
    print("survivors among expected-caught:", surv)


if __name__ == "__main__":
    main()
