#!/bin/bash
# usage: probe.sh <TestName>  — builds the verifsim package test binary (overlay) and runs one test
set -e
python3 - <<'PY'
import sys
sys.argv=['check']
src=open('/verif/check').read().split("def main():")[0]
exec(src)
overlay()
PY
cd ${VERIF_REPO:-/repo} && GOTOOLCHAIN=local GOPROXY=off GOSUMDB=off GOFLAGS=-mod=readonly go1.26.8 test -c -tags verif -vet=off -overlay /verif/.build/overlay.json -o /verif/.build/probe.test ./internal/verifsim/
cd /verif/.build && TZ=UTC ./probe.test -test.run "$1" -test.count 1 ${2:+-test.v}
